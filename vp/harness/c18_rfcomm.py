"""C18 / rfcomm: frames (every frame type x C/R x DLCI x P/F x information length
boundary x credit octet), multiplexer command envelope (type, C/R, EA length), PN
and MSC parameter blocks.

Reference encodings from 3GPP TS 07.10 (5.2.1 frame, 5.2.1.6 FCS, 5.4.6.1 MCC
type/length, 5.4.6.3.1 PN, 5.4.6.3.7 MSC) and the RFCOMM spec (6.5.2 credit octet:
present in UIH frames with P/F=1, not counted by the length field)."""
from __future__ import annotations

from . import c18_common as cm
from .c18_common import Rec


def ref_fcs(data: bytes) -> int:
    # x^8+x^2+x+1, LSB first (reversed 0xE0), preset 0xFF, ones-complement result
    reg = 0xFF
    for b in data:
        reg ^= b
        for _ in range(8):
            reg = (reg >> 1) ^ 0xE0 if reg & 1 else reg >> 1
    return 0xFF - reg


def ref_length(n: int) -> bytes:
    if n <= 0x7F:
        return bytes([(n << 1) | 1])
    return bytes([(n & 0x7F) << 1, n >> 7])


def ref_frame(ftype: int, c_r: int, dlci: int, p_f: int, payload: bytes, credit: int | None) -> bytes:
    addr = 1 | (c_r << 1) | (dlci << 2)
    ctrl = ftype | (p_f << 4)
    ln = ref_length(len(payload))
    head = bytes([addr, ctrl]) + ln
    fcs = ref_fcs(head[:2] if ftype == 0xEF else head)
    return head + (bytes([credit]) if credit is not None else b'') + payload + bytes([fcs])


LENS = [0, 1, 126, 127, 128, 129, 32767]


def frame_cases(rec: Rec, quick: bool):
    out = []
    types = {'SABM': 0x2F, 'UA': 0x63, 'DM': 0x0F, 'DISC': 0x43}
    dlcis = [0, 1, 2, 31, 61] if quick else list(range(0, 62))
    for name, t in types.items():
        for c_r in (0, 1):
            for dlci in dlcis:
                for p_f in (0, 1):
                    out.append({'type': name, 'c_r': c_r, 'dlci': dlci, 'p_f': p_f, 'len': 0, 'credit': None})
    ud = [0, 2, 3, 61] if quick else [0, 2, 3, 4, 5, 30, 31, 60, 61]
    for c_r in (0, 1):
        for dlci in ud:
            for n in LENS:
                out.append({'type': 'UIH', 'c_r': c_r, 'dlci': dlci, 'p_f': 0, 'len': n, 'credit': None})
                if dlci >= 2:
                    for credit in ((7,) if quick and n not in (0, 127, 128) else (0, 7, 255)):
                        out.append({'type': 'UIH', 'c_r': c_r, 'dlci': dlci, 'p_f': 1, 'len': n, 'credit': credit})
    return out


def one_frame(rec: Rec, c: dict) -> tuple[str, str] | None:
    """Returns (how, message) on failure."""
    from bumble import rfcomm

    ft = rfcomm.FrameType[c['type']]
    payload = rec.fill(c['len'], c['dlci'])
    credit = c['credit']
    info = (bytes([credit]) if credit is not None else b'') + payload
    ref = ref_frame(int(ft), c['c_r'], c['dlci'], c['p_f'], payload, credit)
    try:
        if c['type'] == 'UIH':
            f = rfcomm.RFCOMM_Frame.uih(c['c_r'], c['dlci'], info, p_f=c['p_f'])
        else:
            f = rfcomm.RFCOMM_Frame(ft, c['c_r'], c['dlci'], c['p_f'])
        wire = bytes(f)
    except Exception as e:
        return (f'exception:{cm.exc_name(e)}@serialise', f'{cm.exc_name(e)}: {e}')
    if wire != ref:
        return ('serialised_differs_from_spec', f'serialised {cm.short(wire)} spec {cm.short(ref)} ({cm.bytes_diff(ref, wire)})')
    try:
        p = rfcomm.RFCOMM_Frame.from_bytes(ref)
    except Exception as e:
        return (f'exception:{cm.exc_name(e)}@parse', f'parsing {cm.short(ref)}: {cm.exc_name(e)}: {e}')
    got = (int(p.type), p.c_r, p.dlci, p.p_f, bytes(p.information))
    exp = (int(ft), c['c_r'], c['dlci'], c['p_f'], info)
    if got != exp:
        names = ('type', 'c_r', 'dlci', 'p_f', 'information')
        bad = [n for n, a, b in zip(names, exp, got) if a != b]
        return ('parsed_fields_differ:' + ','.join(bad), f'parsed fields differ: {bad}')
    try:
        out = bytes(p)
    except Exception as e:
        return (f'exception:{cm.exc_name(e)}@reserialise', f'{cm.exc_name(e)}: {e}')
    if out != ref:
        how = 'reserialised_bytes_differ'
        # classify the difference: is it exactly the length field counting the credit octet?
        if credit is not None:
            n1 = len(payload) + 1  # diagnosis only: what the length field would be if it counted the credit octet
            l1 = bytes([(n1 << 1) | 1]) if n1 <= 0x7F else bytes([(n1 & 0x7F) << 1, (n1 >> 7) & 0xFF])
            alt = bytes(ref[:2]) + l1 + ref[2 + len(ref_length(len(payload))):]
            if out == alt:
                how = 'reserialised_length_counts_credit_octet'
        return (how, f'parse->bytes {cm.short(out)} != original {cm.short(ref)} ({cm.bytes_diff(ref, out)})')
    return None


def check_frames(rec: Rec, quick: bool):
    cases = frame_cases(rec, quick)
    by_how: dict[str, list] = {}
    results = []
    for c in rec.seq(cases):
        r = one_frame(rec, c)
        results.append((c, r))
        key = ('frame', c['type'], c['c_r'], c['dlci'], c['p_f'], c['len'], c['credit'])
        if r is None:
            rec.ok(key)
        else:
            rec.st.case(key)
            by_how.setdefault(r[0], []).append((c, r[1]))
    # one violation per distinct failure mode, characterised over the whole product space
    proj = [{'type': c['type'], 'p_f': c['p_f'], 'credit_octet': c['credit'] is not None, 'len>127': c['len'] > 127, 'dlci': c['dlci'], 'c_r': c['c_r']} for c, _ in results]
    for how, lst in sorted(by_how.items()):
        failing = [(r is not None and r[0] == how) for _, r in results]
        when = cm.explain(proj, failing)
        sig = {'unit': 'RFCOMM_Frame', 'how': how, 'failing_when': when if when is not None else 'no simple characterisation'}
        c0, m0 = lst[0] if rec.order > 0 else lst[-1]
        rec.st.violation('rfcomm_frame', sig, f'RFCOMM_Frame: {len(lst)} of {len(cases)} cases fail ({how}) exactly when {when}; e.g. {c0}: {m0}', {'unit': 'frame', 'c': c0})
        if rec.keep:
            rec.outcomes[cm.core.digest(('frames', how))] = cm.core.canon_json(sig)
    rec.st.count('frame_cases', len(cases))
    rec.st.samples.append({'frames': len(cases), 'information_lengths': LENS, 'credit_octet': ['absent', 'present']})


# ---------------------------------------------------------------------------
def ref_mcc(mtype: int, c_r: int, value: bytes) -> bytes:
    n = len(value)
    if n <= 0x7F:
        ln = bytes([(n << 1) | 1])
    else:
        ln = bytes([(n & 0x7F) << 1, ((n >> 7) << 1) | 1])
    return bytes([1 | (c_r << 1) | (mtype << 2)]) + ln + value


MCC_TYPES = {'TEST': 0x08, 'PN': 0x20, 'MSC': 0x38, 'NSC': 0x04, 'FCON': 0x28, 'FCOFF': 0x18, 'RPN': 0x24, 'RLS': 0x14}


def check_mcc(rec: Rec):
    from bumble import rfcomm

    results = []
    for name, t in rec.seq(list(MCC_TYPES.items())):
        for c_r in (0, 1):
            for n in (0, 1, 2, 8, 127, 128, 129):
                value = rec.fill(n, t)
                ref = ref_mcc(t, c_r, value)
                c = {'type': name, 'c_r': c_r, 'len': n}
                hows, msgs = [], []
                try:
                    wire = rfcomm.RFCOMM_Frame.make_mcc(t, c_r, value)
                    if wire != ref:
                        hows.append('serialised_differs_from_spec')
                        msgs.append(f'make_mcc gives {cm.short(wire)} spec {cm.short(ref)}')
                except Exception as e:
                    hows.append(f'serialise_exception:{cm.exc_name(e)}')
                    msgs.append(f'make_mcc: {cm.exc_name(e)}: {e}')
                try:
                    pt, pc, pv = rfcomm.RFCOMM_Frame.parse_mcc(ref)
                    if (pt, bool(pc), bytes(pv)) != (t, bool(c_r), value):
                        hows.append('parsed_fields_differ')
                        msgs.append(f'parse_mcc({cm.short(ref)}) gives type {pt} c/r {pc} value {cm.short(pv)} ({len(pv)}B), expected {len(value)}B')
                    elif rfcomm.RFCOMM_Frame.make_mcc(pt, int(pc), pv) != ref:
                        hows.append('reserialised_bytes_differ')
                        msgs.append('parse->make differs')
                except Exception as e:
                    hows.append(f'parse_exception:{cm.exc_name(e)}')
                    msgs.append(f'parse_mcc: {cm.exc_name(e)}: {e}')
                r = ('+'.join(hows), '; '.join(msgs)) if hows else None
                results.append((c, r))
                key = ('mcc', name, c_r, n)
                if r is None:
                    rec.ok(key)
                else:
                    rec.st.case(key)
    fails = [(c, r) for c, r in results if r]
    if fails:
        proj = [{'type': c['type'], 'c_r': c['c_r'], 'value_len>127': c['len'] > 127} for c, _ in results]
        when = cm.explain(proj, [r is not None for _, r in results])
        hows = sorted({r[0] for _, r in fails})
        sig = {'unit': 'rfcomm_mcc', 'how': hows, 'failing_when': when if when is not None else 'no simple characterisation'}
        c0, r0 = fails[0] if rec.order > 0 else fails[-1]
        rec.st.violation('rfcomm_mcc', sig, f'MCC envelope: {len(fails)} of {len(results)} cases fail exactly when {when}; e.g. {c0}: {r0[1]}', {'unit': 'mcc', 'c': c0})
        if rec.keep:
            rec.outcomes[cm.core.digest(('mcc',))] = cm.core.canon_json(sig)
    rec.st.count('mcc_cases', len(results))


def check_pn_msc(rec: Rec, quick: bool):
    from bumble import rfcomm

    base = {'dlci': 2, 'cl': 0xF0, 'priority': 7, 'ack_timer': 0, 'max_frame_size': 127, 'max_retransmissions': 0, 'initial_credits': 7}
    dom = {
        'dlci': list(range(64)),
        'cl': [0x00, 0xE0, 0xF0, 0x0F, 0xFF],
        'priority': list(range(64)),
        'ack_timer': [0, 1, 0x7F, 0x80, 0xFF],
        'max_frame_size': [0, 1, 0x7F, 0x80, 0xFF, 0x100, 0x7FFF, 0x8000, 0xFFFF],
        'max_retransmissions': [0, 1, 0xFF],
        'initial_credits': list(range(8)),
    }
    combos = [dict(base)]
    for f, vals in dom.items():
        for v in vals:
            if v != base[f]:
                combos.append(dict(base, **{f: v}))
    if not quick:
        import itertools

        for (f, fv), (g, gv) in itertools.combinations(dom.items(), 2):
            for v in fv[:: max(1, len(fv) // 6)]:
                for w in gv[:: max(1, len(gv) // 6)]:
                    combos.append(dict(base, **{f: v, g: w}))
    for c in rec.seq(combos):
        key = ('pn',) + tuple(c.values())
        ref = bytes([c['dlci'], c['cl'], c['priority'], c['ack_timer'], c['max_frame_size'] & 0xFF, c['max_frame_size'] >> 8, c['max_retransmissions'], c['initial_credits']])
        dev = sorted(f for f in c if c[f] != base[f])
        try:
            wire = bytes(rfcomm.RFCOMM_MCC_PN(**c))
            p = rfcomm.RFCOMM_MCC_PN.from_bytes(ref)
            again = bytes(rfcomm.RFCOMM_MCC_PN(**{f: getattr(p, f) for f in c}))
            ok = wire == ref and all(getattr(p, f) == c[f] for f in c) and again == ref
            msg = f'wire {wire.hex()} ref {ref.hex()} parsed {p}'
        except Exception as e:
            ok, msg = False, f'{cm.exc_name(e)}: {e}'
        if ok:
            rec.ok(key)
        else:
            rec.bad(key, 'rfcomm_pn', {'unit': 'RFCOMM_MCC_PN', 'deviating': dev}, f'PN {c}: {msg}', {'unit': 'pn', 'c': c})
    # MSC: exhaustive over DLCI x the five modem-status bits
    n = 0
    results = []
    for dlci in rec.seq(range(64)):
        for bits in range(32):
            fc, rtc, rtr, ic, dv = [(bits >> i) & 1 for i in range(5)]
            c = {'dlci': dlci, 'fc': fc, 'rtc': rtc, 'rtr': rtr, 'ic': ic, 'dv': dv}
            ref = bytes([(dlci << 2) | 3, 1 | fc << 1 | rtc << 2 | rtr << 3 | ic << 6 | dv << 7])
            key = ('msc', dlci, bits)
            n += 1
            try:
                wire = bytes(rfcomm.RFCOMM_MCC_MSC(**c))
                p = rfcomm.RFCOMM_MCC_MSC.from_bytes(ref)
                again = bytes(rfcomm.RFCOMM_MCC_MSC(**{f: getattr(p, f) for f in c}))
                ok = wire == ref and all(getattr(p, f) == c[f] for f in c) and again == ref
                msg = f'wire {wire.hex()} ref {ref.hex()} parsed {p}'
            except Exception as e:
                ok, msg = False, f'{cm.exc_name(e)}: {e}'
            results.append((c, None if ok else msg))
            if ok:
                rec.ok(key)
            else:
                rec.st.case(key)
    fails = [(c, m) for c, m in results if m]
    if fails:
        when = cm.explain([c for c, _ in results], [m is not None for _, m in results])
        c0, m0 = fails[0] if rec.order > 0 else fails[-1]
        sig = {'unit': 'RFCOMM_MCC_MSC', 'failing_when': when if when is not None else 'no simple characterisation'}
        rec.st.violation('rfcomm_msc', sig, f'MSC: {len(fails)} of {len(results)} values do not round-trip (exactly when {when}); e.g. {c0}: {m0}', {'unit': 'msc', 'c': c0})
        if rec.keep:
            rec.outcomes[cm.core.digest(('msc',))] = cm.core.canon_json(sig)
    rec.st.count('pn_cases', len(combos))
    rec.st.count('msc_cases', n)
    # whole path: PN/MSC inside an MCC inside a UIH frame on DLCI 0
    for c_r in (0, 1):
        for label, obj, t in (('pn', rfcomm.RFCOMM_MCC_PN(**base), 0x20), ('msc', rfcomm.RFCOMM_MCC_MSC(dlci=5, fc=0, rtc=1, rtr=1, ic=0, dv=1), 0x38)):
            key = ('mux', label, c_r)
            try:
                frame = rfcomm.RFCOMM_Frame.uih(c_r, 0, rfcomm.RFCOMM_Frame.make_mcc(t, c_r, bytes(obj)))
                back = rfcomm.RFCOMM_Frame.from_bytes(bytes(frame))
                pt, pc, pv = rfcomm.RFCOMM_Frame.parse_mcc(back.information)
                inner = type(obj).from_bytes(pv)
                ok = pt == t and bool(pc) == bool(c_r) and inner == obj and bytes(back) == bytes(frame)
            except Exception as e:
                ok = False
            if ok:
                rec.ok(key)
            else:
                rec.bad(key, 'rfcomm_mux', {'unit': 'mux_command_in_frame', 'mcc': label}, f'{label} c/r={c_r} does not survive frame+mcc round trip', {'unit': 'mux', 'label': label})


def run(rec: Rec, quick: bool):
    check_frames(rec, quick)
    check_mcc(rec)
    check_pn_msc(rec, quick)
