"""Shared raw-ATT seam (C10, C11, C12).

Two real Device/Host/Controller stacks on a LocalLink under the VLoop, one real LE
connection (device 0 = central / raw client side, device 1 = peripheral / GATT
server under test).  Raw ATT PDUs are injected on the *server side* of a bearer
and every PDU the server device transmits on that bearer is captured:

  bearer 'att'  : injected at the L2CAP ATT fixed channel of the server
                  (`ChannelManager.on_pdu(connection, 4, pdu)` -> registered handler
                  `Device.on_gatt_pdu`), captured by wrapping `Device.send_l2cap_pdu`
                  on that one Device *instance* (bumble is not edited);
  bearer 'eatt' : a real enhanced-ATT `LeCreditBasedChannel` opened by the peer with
                  `gatt_client.Client.connect_eatt`; injected at the server channel's
                  `sink` (what `LeCreditBasedChannel.on_pdu` calls with a complete
                  SDU), captured by wrapping `channel.write` on that instance.

In the default ("capture") mode the captured PDUs are not forwarded to the peer, so
a case costs only the server's work.  `forward=True` gives the narrow end-to-end
seam: PDUs are sent by the peer over the link and the replies are observed where
they arrive at the peer (used for conformance of the two seams).

Also here, because all three properties need them: a JSON-able *database spec*
and its builder (real `gatt.Service` / `Characteristic` / `Descriptor` objects
added with `Server.add_service` / `add_attribute`), and small ATT wire helpers
written from the Core spec Vol 3 Part F (independent of bumble/att.py).
"""
from __future__ import annotations

import struct

from .devices import World

ATT_CID = 0x0004
EATT_PSM = 0x0027

# ---------------------------------------------------------------------------
# ATT wire reference (Core spec Vol 3 Part F 3.4.8 "Attribute opcode summary")
# ---------------------------------------------------------------------------
OP_ERROR_RSP = 0x01
REQUESTS = {
    0x02: 'EXCHANGE_MTU_REQ',
    0x04: 'FIND_INFORMATION_REQ',
    0x06: 'FIND_BY_TYPE_VALUE_REQ',
    0x08: 'READ_BY_TYPE_REQ',
    0x0A: 'READ_REQ',
    0x0C: 'READ_BLOB_REQ',
    0x0E: 'READ_MULTIPLE_REQ',
    0x10: 'READ_BY_GROUP_TYPE_REQ',
    0x12: 'WRITE_REQ',
    0x16: 'PREPARE_WRITE_REQ',
    0x18: 'EXECUTE_WRITE_REQ',
    0x20: 'READ_MULTIPLE_VARIABLE_REQ',
}
RESPONSES = {0x01, 0x03, 0x05, 0x07, 0x09, 0x0B, 0x0D, 0x0F, 0x11, 0x13, 0x17, 0x19, 0x21}
COMMANDS = {0x52: 'WRITE_CMD', 0xD2: 'SIGNED_WRITE_CMD'}
NOTIFICATIONS = {0x1B, 0x23}
OP_INDICATION = 0x1D
OP_CONFIRMATION = 0x1E
# minimum parameter length (bytes after the opcode) of each request, from the PDU formats
REQ_MIN_PARAMS = {0x02: 2, 0x04: 4, 0x06: 6, 0x08: 6, 0x0A: 2, 0x0C: 4, 0x0E: 4, 0x10: 6, 0x12: 2, 0x16: 4, 0x18: 1, 0x20: 4}

ERR_INVALID_HANDLE = 0x01
ERR_READ_NOT_PERMITTED = 0x02
ERR_WRITE_NOT_PERMITTED = 0x03
ERR_INVALID_PDU = 0x04
ERR_INSUFF_AUTHENTICATION = 0x05
ERR_REQUEST_NOT_SUPPORTED = 0x06
ERR_INVALID_OFFSET = 0x07
ERR_INSUFF_AUTHORIZATION = 0x08
ERR_ATTRIBUTE_NOT_FOUND = 0x0A
ERR_ATTRIBUTE_NOT_LONG = 0x0B
ERR_INSUFF_ENCRYPTION = 0x0F
ACCESS_ERRORS_READ = {ERR_READ_NOT_PERMITTED, ERR_INSUFF_AUTHENTICATION, ERR_INSUFF_AUTHORIZATION, ERR_INSUFF_ENCRYPTION}
ACCESS_ERRORS_WRITE = {ERR_WRITE_NOT_PERMITTED, ERR_INSUFF_AUTHENTICATION, ERR_INSUFF_AUTHORIZATION, ERR_INSUFF_ENCRYPTION}


def classify_opcode(op: int) -> str:
    """'request' | 'command' | 'confirmation' | 'server_pdu' | 'undefined'."""
    if op in REQUESTS:
        return 'request'
    if op & 0x40:
        return 'command'  # defined or not: the command flag means "no response"
    if op == OP_CONFIRMATION:
        return 'confirmation'
    if op in RESPONSES or op in NOTIFICATIONS or op == OP_INDICATION:
        return 'server_pdu'
    return 'undefined'


def is_server_originated(pdu: bytes) -> bool:
    """Responses, notifications and indications all have odd opcodes; requests,
    commands and the confirmation are even (opcode table, Part F 3.4.8)."""
    return bool(pdu) and (pdu[0] & 1) == 1


def error_rsp_fields(pdu: bytes):
    """(request_opcode, handle, error_code) of a well-formed Error Response, else None."""
    if len(pdu) == 5 and pdu[0] == OP_ERROR_RSP:
        return pdu[1], pdu[2] | (pdu[3] << 8), pdu[4]
    return None


def answers(request_op: int, pdu: bytes) -> bool:
    """Is `pdu` the matching response of, or an Error Response naming, `request_op`?"""
    if not pdu:
        return False
    e = error_rsp_fields(pdu)
    if e is not None:
        return e[0] == request_op
    return pdu[0] == request_op + 1 and pdu[0] != OP_ERROR_RSP


def h16(v: int) -> bytes:
    return struct.pack('<H', v & 0xFFFF)


def uuid_bytes(u: str) -> bytes:
    """'2800' -> 2 bytes LE; 32-hex-digit string -> 16 bytes LE."""
    u = u.replace('-', '')
    return bytes.fromhex(u)[::-1]


def req_exchange_mtu(mtu):
    return bytes([0x02]) + h16(mtu)


def req_find_information(start, end):
    return bytes([0x04]) + h16(start) + h16(end)


def req_find_by_type_value(start, end, type16: bytes, value: bytes):
    return bytes([0x06]) + h16(start) + h16(end) + type16 + value


def req_read_by_type(start, end, type_bytes: bytes):
    return bytes([0x08]) + h16(start) + h16(end) + type_bytes


def req_read(handle):
    return bytes([0x0A]) + h16(handle)


def req_read_blob(handle, offset):
    return bytes([0x0C]) + h16(handle) + h16(offset)


def req_read_multiple(handles, variable=False):
    return bytes([0x20 if variable else 0x0E]) + b''.join(h16(h) for h in handles)


def req_read_by_group_type(start, end, type_bytes: bytes):
    return bytes([0x10]) + h16(start) + h16(end) + type_bytes


def req_write(handle, value: bytes, op=0x12):
    return bytes([op]) + h16(handle) + value


def req_prepare_write(handle, offset, value: bytes):
    return bytes([0x16]) + h16(handle) + h16(offset) + value


def req_execute_write(flags):
    return bytes([0x18, flags & 0xFF])


# ---------------------------------------------------------------------------
# database specs
# ---------------------------------------------------------------------------
# value spec : ['b', length, salt]            static bytes, pattern below
#              ['x', hexstring]               static bytes, explicit
#              ['dyn', kind, length, salt]    gatt.CharacteristicValue / AttributeValueV2:
#                   kind 'r'   read function only          'w'  write function only
#                        'rw'  both (backed by a cell)     'arw' both, async functions
#                        'err' read and write raise ATT_Error(0x80)
#                        'v2'  AttributeValueV2 (bearer-aware), both
# descriptor : [uuid, permissions, value_spec]
# char       : [uuid, properties, permissions, value_spec, [descriptor...]]
# service    : ['svc', uuid, primary(bool), [char...]]   (includes: optional 5th item = list of indexes of
#              earlier services to include)
# raw        : ['raw', type_uuid, permissions, value_spec]  a plain att.Attribute added with add_attribute
# A database spec is a list of service / raw items, added in order.


def pattern(length: int, salt: int) -> bytes:
    """Deterministic bytes: an arithmetic progression (step 7) starting at a
    salt-dependent value, so values of different salts differ in every byte."""
    return bytes(((salt * 29 + 7 * i + (i >> 8) * 3 + 1) & 0xFF) for i in range(length))


class Cell:
    """Backing store of a dynamic value; counts accesses."""

    def __init__(self, data: bytes):
        self.data = data
        self.initial = data
        self.reads = 0
        self.writes = 0


GATE: dict = {}  # the event behind the 'gate_*' dynamic values (reset by the check before each case)


def _make_value(vs, cells):
    from bumble import att
    from bumble.gatt import CharacteristicValue

    if vs is None:
        return None
    kind = vs[0]
    if kind == 'b':
        return pattern(vs[1], vs[2])
    if kind == 'x':
        return bytes.fromhex(vs[1])
    if kind == 'dyn':
        _, dk, length, salt = vs
        cell = Cell(pattern(length, salt))
        cells.append(cell)

        def rd(_bearer):
            cell.reads += 1
            return cell.data

        def wr(_bearer, value):
            cell.writes += 1
            cell.data = bytes(value)

        async def ard(_bearer):
            cell.reads += 1
            return cell.data

        async def awr(_bearer, value):
            cell.writes += 1
            cell.data = bytes(value)

        def erd(_bearer):
            cell.reads += 1
            raise att.ATT_Error(0x80)

        def ewr(_bearer, value):
            cell.writes += 1
            raise att.ATT_Error(0x80)

        if dk in ('gate_r', 'gate_w', 'gate_aw'):
            # rendezvous: reading (or asynchronously writing) the gated value completes only once the key value has
            # been written - by whichever request or command, on whichever bearer, gets there
            import asyncio

            def gate():
                ev = GATE.get('ev')
                if ev is None:
                    ev = GATE['ev'] = asyncio.Event()
                return ev

            async def grd(_bearer):
                cell.reads += 1
                await gate().wait()
                return cell.data

            async def gawr(_bearer, value):
                cell.writes += 1
                await gate().wait()
                cell.data = bytes(value)

            def gwr(_bearer, value):
                cell.writes += 1
                cell.data = bytes(value)
                gate().set()

            if dk == 'gate_r':
                return CharacteristicValue(read=grd, write=gawr)
            return CharacteristicValue(write=gwr)
        if dk == 'r':
            return CharacteristicValue(read=rd)
        if dk == 'w':
            return CharacteristicValue(write=wr)
        if dk == 'rw':
            return CharacteristicValue(read=rd, write=wr)
        if dk == 'arw':
            return CharacteristicValue(read=ard, write=awr)
        if dk == 'err':
            return CharacteristicValue(read=erd, write=ewr)
        if dk == 'v2':
            return att.AttributeValueV2(read=rd, write=wr)
        raise ValueError(dk)
    raise ValueError(kind)


class Database:
    """What build_database returns: the real attribute objects plus a plain-data
    description (`rows`) for reference models: one dict per attribute with
    handle, role ('service'|'include'|'chr_decl'|'chr_value'|'descriptor'|'cccd'|'raw'),
    type (bytes, little-endian as on the wire), perms (int), static (bytes or None
    for dynamic values), dyn (kind or None), group_end."""

    def __init__(self):
        self.attributes = []
        self.rows = []
        self.cells = []
        self.by_handle = {}

    def row(self, handle):
        return self.by_handle.get(handle)

    @property
    def last(self):
        return len(self.rows)


def build_database(server, spec) -> Database:
    """Replace the content of the real `gatt_server.Server` by the database `spec`."""
    from bumble import att, gatt

    server.attributes = []
    server.services = []
    server.attributes_by_handle = {}
    server.subscribers = {}
    db = Database()
    services = []
    dyn_of = {}
    for item in spec:
        if item[0] == 'svc':
            _, uuid, primary, chars = item[:4]
            includes = [services[i] for i in (item[4] if len(item) > 4 else [])]
            cobjs = []
            for cu, props, perms, vs, descs in chars:
                dobjs = []
                for du, dperms, dvs in descs:
                    d = gatt.Descriptor(du, att.Attribute.Permissions(dperms), _make_value(dvs, db.cells))
                    dyn_of[id(d)] = dvs[1] if dvs and dvs[0] == 'dyn' else None
                    dobjs.append(d)
                c = gatt.Characteristic(cu, gatt.Characteristic.Properties(props), att.Attribute.Permissions(perms), _make_value(vs, db.cells), dobjs)
                dyn_of[id(c)] = vs[1] if vs and vs[0] == 'dyn' else None
                cobjs.append(c)
            s = gatt.Service(uuid, cobjs, primary=primary, included_services=includes)
            services.append(s)
            server.add_service(s)
        elif item[0] == 'raw':
            _, tu, perms, vs = item
            a = att.Attribute(tu, att.Attribute.Permissions(perms), _make_value(vs, db.cells))
            dyn_of[id(a)] = vs[1] if vs and vs[0] == 'dyn' else None
            server.add_attribute(a)
        else:
            raise ValueError(item[0])
    db.attributes = list(server.attributes)
    for a in db.attributes:
        if isinstance(a, gatt.Service):
            role = 'service'
        elif isinstance(a, gatt.IncludedServiceDeclaration):
            role = 'include'
        elif isinstance(a, gatt.CharacteristicDeclaration):
            role = 'chr_decl'
        elif isinstance(a, gatt.Characteristic):
            role = 'chr_value'
        elif isinstance(a, gatt.Descriptor):
            role = 'cccd' if isinstance(a.value, att.AttributeValueV2) and id(a) not in dyn_of else 'descriptor'
        else:
            role = 'raw'
        static = a.value if isinstance(a.value, (bytes, bytearray)) else (b'' if a.value is None else None)
        row = {
            'handle': a.handle,
            'role': role,
            'type': a.type.to_pdu_bytes(),
            'perms': int(a.permissions),
            'static': None if static is None else bytes(static),
            'dyn': dyn_of.get(id(a)) if role != 'cccd' else 'cccd',
            'group_end': a.end_group_handle,
        }
        db.rows.append(row)
        db.by_handle[a.handle] = row
    return db


# ---------------------------------------------------------------------------
# the world
# ---------------------------------------------------------------------------
class AttWorld:
    """with AttWorld() as aw: ...   One per worker; reuse across cases with
    build_database() / restore()."""

    def __init__(self, seed=0, forward=False):
        self.seed = seed
        self.forward = forward
        self.world = None
        self.eatt = {}  # name -> (server_channel, client_channel)
        self.captured = {'att': []}
        self.peer_rx = {'att': []}
        self.sync_errors = []
        self.db = None
        self._snap = None
        self.cfg_mtu = {'att': 23}

    # -- life cycle ----------------------------------------------------------
    def __enter__(self):
        self.world = World(2, seed=self.seed)
        self.world.__enter__()
        try:
            self._setup()
        except BaseException:
            self.world.__exit__(None, None, None)
            raise
        return self

    def __exit__(self, *a):
        return self.world.__exit__(*a)

    def _setup(self):
        w = self.world
        self.loop = w.loop
        w.power_on()
        self.client_dev, self.server_dev = w.devices[0], w.devices[1]
        self.server = self.server_dev.gatt_server
        self.eatt_server = self.server.register_eatt()
        self.c_conn, self.s_conn = w.connect_le()
        assert self.s_conn.gatt_server is self.server

        real_send = self.server_dev.send_l2cap_pdu
        handle = self.s_conn.handle
        cap = self.captured['att']

        def send_l2cap_pdu(connection_handle, cid, pdu):
            if cid == ATT_CID and connection_handle == handle:
                cap.append(bytes(pdu))
                if not self.forward:
                    return
            real_send(connection_handle, cid, pdu)

        self.server_dev.send_l2cap_pdu = send_l2cap_pdu  # instance attribute, found first by Server.send_gatt_pdu
        if self.forward:
            rx = self.peer_rx['att']
            self.client_dev.l2cap_channel_manager.register_fixed_channel(ATT_CID, lambda _h, pdu: rx.append(bytes(pdu)))

    def open_eatt(self, name='eatt', mtu=2048):
        """Open one real EATT bearer from the peer; its ATT_MTU on the server is
        min(server spec mtu 2048, `mtu`)."""
        from bumble import l2cap
        from bumble.gatt_client import Client

        mgr = self.server_dev.l2cap_channel_manager
        before = set(mgr.le_coc_channels.get(self.s_conn.handle, {}).values())
        client = self.world.run(Client.connect_eatt(self.c_conn, l2cap.LeCreditBasedChannelSpec(psm=EATT_PSM, mtu=mtu)))
        self.world.settle()
        new = [c for c in mgr.le_coc_channels.get(self.s_conn.handle, {}).values() if c not in before]
        assert len(new) == 1, new
        sch, cch = new[0], client.bearer
        cap = self.captured[name] = []
        real_write = sch.write

        def write(data):
            cap.append(bytes(data))
            if self.forward:
                real_write(data)

        sch.write = write
        if self.forward:
            rx = self.peer_rx[name] = []
            cch.sink = lambda pdu: rx.append(bytes(pdu))
        self.eatt[name] = (sch, cch)
        self.cfg_mtu[name] = sch.att_mtu
        return sch

    def close_eatt(self, name, by='peer'):
        """Disconnect an EATT bearer with a real L2CAP Disconnection Request sent by the
        peer's channel object (by='peer') or by the server's (by='server')."""
        sch, cch = self.eatt.pop(name)
        self.world.run((cch if by == 'peer' else sch).disconnect())
        self.world.settle()
        self.captured.pop(name, None)
        self.peer_rx.pop(name, None)
        self.cfg_mtu.pop(name, None)
        return sch

    # -- configuration ---------------------------------------------------------
    def bearer(self, kind='att'):
        return self.s_conn if kind == 'att' else self.eatt[kind][0]

    def set_database(self, spec):
        self.db = build_database(self.server, spec)
        self.snapshot()
        return self.db

    def set_security(self, encrypted: bool, authenticated: bool):
        self.s_conn.encryption = 1 if encrypted else 0
        self.s_conn.authenticated = bool(authenticated)

    def set_mtu(self, kind, mtu):
        """Harness-side assignment of the bearer ATT_MTU, remembered as the value
        restore() goes back to (the real Exchange MTU path is exercised by injecting
        opcode 0x02; use note_mtu() after that)."""
        self.bearer(kind).att_mtu = mtu
        self.cfg_mtu[kind] = mtu

    def note_mtu(self, kind, mtu):
        """Record the ATT_MTU that restore() re-establishes, without assigning it."""
        self.cfg_mtu[kind] = mtu

    def snapshot(self):
        self._snap = [(a, a.value, a.permissions) for a in self.server.attributes]

    def restore(self, subscribers=True):
        """Undo the effects of injected requests: attribute values, dynamic cells,
        subscriptions, ATT_MTU of every bearer (back to its configured value)."""
        for a, v, p in self._snap:
            a.value = v
            a.permissions = p
        for c in self.db.cells:
            c.data = c.initial
        if subscribers and self.server.subscribers:
            self.server.subscribers.clear()
        self.s_conn.att_mtu = self.cfg_mtu['att']
        for name, (sch, _) in self.eatt.items():
            sch.att_mtu = self.cfg_mtu[name]

    def dirty(self):
        """Handles whose stored value differs from the snapshot (sanity / C11 oracle)."""
        out = [a.handle for a, v, _ in self._snap if a.value is not v and a.value != v]
        out += [-1 - i for i, c in enumerate(self.db.cells) if c.data != c.initial]
        return out

    # -- injection ------------------------------------------------------------
    def inject(self, kind, pdu: bytes, settle=True, l2cap=False):
        """Deliver raw ATT bytes to the server side of bearer `kind`; returns the list
        of PDUs the server device transmitted on that bearer until quiescence.
        Exceptions escaping synchronously from the receive path are recorded in
        self.sync_errors (they would propagate into Host packet dispatch).
        EATT: by default the PDU is handed to the channel's `sink` (cases stay
        independent); with l2cap=True it is delivered as one K-frame (SDU length + PDU)
        to `LeCreditBasedChannel.on_pdu`, i.e. including L2CAP reassembly state and
        credit accounting of the real channel."""
        cap = self.captured[kind]
        del cap[:]
        try:
            if self.forward:
                if kind == 'att':
                    del self.peer_rx['att'][:]
                    self.c_conn.send_l2cap_pdu(ATT_CID, pdu)
                else:
                    del self.peer_rx[kind][:]
                    self.eatt[kind][1].write(pdu)
            elif kind == 'att':
                self.server_dev.l2cap_channel_manager.on_pdu(self.s_conn, ATT_CID, pdu)
            elif l2cap:
                self.eatt[kind][0].on_pdu(struct.pack('<H', len(pdu)) + pdu)
            else:
                self.eatt[kind][0].sink(pdu)
        except Exception as e:  # noqa: BLE001 - recorded, never swallowed silently
            self.sync_errors.append(f'{type(e).__name__}: {e}')
        if settle:
            self.loop.run_quiescent()
            if self.loop.exceptions:
                self.sync_errors.extend(f'loop: {m} {x}' for m, x in self.loop.exceptions)
                del self.loop.exceptions[:]
        return list(cap)

    def take(self, kind):
        """PDUs captured since the last inject()/take() on this bearer."""
        cap = self.captured[kind]
        out = list(cap)
        del cap[:]
        return out

    def take_errors(self):
        out, self.sync_errors = self.sync_errors, []
        return out

    def settle(self):
        self.loop.run_quiescent()
