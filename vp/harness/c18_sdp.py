"""C18 / sdp: data elements (all types, integer widths, UUID widths, every size
descriptor boundary, nesting depth up to and past the parser limit) and every
registered SDP PDU class.

Reference model: an element is a tuple
  ('nil',) ('uint', size, v) ('sint', size, v) ('uuid', le_bytes) ('text', bytes)
  ('bool', b) ('seq', [..]) ('alt', [..]) ('url', str)
encoded by `ref_de` straight from Core spec Vol 3 Part B 3.2/3.3 (big-endian values,
header = type<<3 | size index, size index 5/6/7 = 8/16/32-bit length).  The
reference encoder uses the *minimal* length form unless told otherwise."""
from __future__ import annotations

import struct

from . import c18_common as cm
from .c18_common import Adapter, Rec, Slot

TYPE = {'nil': 0, 'uint': 1, 'sint': 2, 'uuid': 3, 'text': 4, 'bool': 5, 'seq': 6, 'alt': 7, 'url': 8}
FIXED_INDEX = {1: 0, 2: 1, 4: 2, 8: 3, 16: 4}


def ref_de(e, force_index: int | None = None) -> bytes:
    kind = e[0]
    t = TYPE[kind]
    if kind == 'nil':
        return bytes([t << 3])
    if kind in ('uint', 'sint'):
        size, v = e[1], e[2]
        return bytes([t << 3 | FIXED_INDEX[size]]) + v.to_bytes(size, 'big', signed=(kind == 'sint'))
    if kind == 'uuid':
        le = e[1]
        return bytes([t << 3 | FIXED_INDEX[len(le)]]) + le[::-1]
    if kind == 'bool':
        return bytes([t << 3, 1 if e[1] else 0])
    if kind == 'text':
        data = e[1]
    elif kind == 'url':
        data = e[1].encode('utf-8')
    else:
        data = b''.join(ref_de(c) for c in e[1])
    n = len(data)
    idx = force_index if force_index is not None else (5 if n <= 0xFF else 6 if n <= 0xFFFF else 7)
    return bytes([t << 3 | idx]) + n.to_bytes({5: 1, 6: 2, 7: 4}[idx], 'big') + data


def build(e):
    """Construct the bumble DataElement for a reference element via the public factories."""
    from bumble.sdp import DataElement

    kind = e[0]
    if kind == 'nil':
        return DataElement.nil()
    if kind == 'uint':
        return DataElement.unsigned_integer(e[2], e[1])
    if kind == 'sint':
        return DataElement.signed_integer(e[2], e[1])
    if kind == 'uuid':
        return DataElement.uuid(cm.mk_uuid(e[1]))
    if kind == 'text':
        return DataElement.text_string(e[1])
    if kind == 'bool':
        return DataElement.boolean(e[1])
    if kind == 'url':
        return DataElement.url(e[1])
    kids = [build(c) for c in e[1]]
    return DataElement.sequence(kids) if kind == 'seq' else DataElement.alternative(kids)


def cmp_de(e, d, path='') -> str | None:
    """Compare a parsed bumble DataElement with the reference element."""
    from bumble.sdp import DataElement

    if not isinstance(d, DataElement):
        return f'{path}: not a DataElement ({type(d).__name__})'
    kind = e[0]
    if int(d.type) != TYPE[kind]:
        return f'{path}: type {TYPE[kind]} != {int(d.type)}'
    if kind == 'nil':
        return None if d.value is None else f'{path}: nil value {d.value!r}'
    if kind in ('uint', 'sint'):
        if d.value != e[2]:
            return f'{path}: integer {e[2]} != {d.value}'
        if d.value_size != e[1]:
            return f'{path}: value_size {e[1]} != {d.value_size}'
        return None
    if kind == 'uuid':
        return cm.same(cm.mk_uuid(e[1]), d.value, path)
    if kind == 'text':
        return None if d.value == e[1] else f'{path}: bytes differ (text)'
    if kind == 'url':
        return None if d.value == e[1] else f'{path}: str differs (url)'
    if kind == 'bool':
        return None if d.value is e[1] or d.value == e[1] else f'{path}: bool {e[1]} != {d.value}'
    kids = list(d.value)
    if len(kids) != len(e[1]):
        return f'{path}: length {len(e[1])} != {len(kids)}'
    for i, (c, k) in enumerate(zip(e[1], kids)):
        r = cmp_de(c, k, f'{path}[{i}]')
        if r:
            return r
    return None


def fresh_de(d):
    """New DataElement tree from the parsed tree's type/value/value_size only (drops the
    byte cache the parser leaves on every node)."""
    from bumble.sdp import DataElement

    if int(d.type) in (6, 7):
        return DataElement(d.type, [fresh_de(c) for c in d.value])
    return DataElement(d.type, d.value, d.value_size)


cm.FRESH_HOOKS['DataElement'] = fresh_de


class DEValue:
    """Field value wrapper so the generic engine can compare DataElement-typed fields
    against the reference element."""

    def __init__(self, e):
        self.e = e

    def c18_same(self, got, path):
        return cmp_de(self.e, got, path)


# ---------------------------------------------------------------------------
def sized_container(kind: str, n: int, rec: Rec):
    """A seq/alt whose content is exactly n bytes long."""
    if n == 0:
        return (kind, [])
    if n == 1:
        return (kind, [('nil',)])
    if n <= 257:
        return (kind, [('text', rec.fill(n - 2, n))])  # 1 header + 1 length + data
    return (kind, [('text', rec.fill(n - 3, n))])  # 1 header + 2 length + data


def leaf_elements(rec: Rec, big: bool):
    out = [('nil',), ('bool', True), ('bool', False)]
    for size in (1, 2, 4, 8):
        top = (1 << (8 * size)) - 1
        for v in (0, 1, top >> 1, (top >> 1) + 1, top):
            out.append(('uint', size, v))
        lo = -(1 << (8 * size - 1))
        for v in (0, lo, -1, 1, -lo - 1):
            out.append(('sint', size, v))
    for label, u, le in cm.uuid_candidates():
        out.append(('uuid', le))
    sizes = [0, 1, 255, 256, 65535, 65536] if big else [0, 1, 255, 256]
    for n in sizes:
        out.append(('text', rec.fill(n, n)))
        out.append(('url', ''.join(chr(0x21 + ((i * 7 + n) % 90)) for i in range(n))))
        out.append(sized_container('seq', n, rec))
        out.append(sized_container('alt', n, rec))
    out.append(('url', 'http://éx/'))  # non-ASCII: size counts UTF-8 bytes
    return out


def composite_elements(rec: Rec):
    leaves = [('nil',), ('uint', 2, 0x0100), ('sint', 4, -2), ('uuid', cm.REG16.to_bytes(2, 'little')), ('uuid', cm.CUSTOM128_LE), ('text', b'abc'), ('bool', True), ('url', 'x:y')]
    out = [('seq', leaves), ('alt', leaves), ('seq', [('seq', leaves), ('alt', leaves), ('seq', [])])]
    # a realistic service record attribute list
    out.append(
        ('seq', [
            ('uint', 2, 0x0000), ('uint', 4, 0x00010001),
            ('uint', 2, 0x0001), ('seq', [('uuid', (0x1101).to_bytes(2, 'little'))]),
            ('uint', 2, 0x0004), ('seq', [('seq', [('uuid', cm.REG16.to_bytes(2, 'little'))]), ('seq', [('uuid', (0x0003).to_bytes(2, 'little')), ('uint', 1, 5)])]),
        ])
    )
    return out


def nested(depth: int, kind='seq'):
    e = ('nil',)
    for _ in range(depth):
        e = (kind, [e])
    return e


def elem_class(e) -> str:
    kind = e[0]
    if kind in ('uint', 'sint'):
        return f'{kind}{e[1] * 8}'
    if kind == 'uuid':
        return f'uuid{len(e[1]) * 8}'
    return kind


PARSER_STATE_SIG = {'unit': 'DataElementParser', 'how': 'nesting_counter_not_restored_after_parse'}
_DEEPEST = {}


def deepest_element() -> bytes:
    """Spec encoding of the most deeply nested list a FRESH parser accepts (found by trying).  Parsed by a parser
    straight after another element, it tells - through the public API alone - whether that element left nesting levels
    behind: then this one no longer fits."""
    if 'b' not in _DEEPEST:
        from bumble.sdp import DataElementParser

        best = ref_de(nested(1))
        for d in range(2, 80):
            b = ref_de(nested(d))
            try:
                DataElementParser(b).parse_next()
            except Exception:
                break
            best = b
        _DEEPEST['b'] = best
    return _DEEPEST['b']


def limit_still_enforced(prefix: bytes, count: int = 1) -> str | None:
    """After the element(s) in `prefix`, an element nested one level beyond the limit must still be refused (a parser
    that hands back MORE nesting levels than it took lets a later element nest deeper than allowed)."""
    from bumble.sdp import DataElementParser

    deepest = deepest_element()
    too_deep = bytes([0x35, len(deepest)]) + deepest if len(deepest) < 256 else None
    if too_deep is None:
        return None
    try:
        DataElementParser(too_deep).parse_next()
        return None  # a fresh parser accepts it: there is no limit to speak of
    except Exception:
        pass
    parser = DataElementParser(prefix + too_deep)
    try:
        for _ in range(count):
            parser.parse_next()
    except Exception:
        return None
    try:
        parser.parse_next()
    except Exception:
        return None
    return 'an element nested one level beyond the limit is accepted after it: the parser handed back more nesting levels than it took'


def parser_left_clean(parser) -> str | None:
    """The parser has just returned the element(s) under test and the deepest acceptable element follows in its buffer:
    it must parse, and then the buffer must be at its end."""
    try:
        d = parser.parse_next()
    except Exception as x:
        return f'a following element nested to the limit no longer parses ({cm.exc_name(x)}: {x}): the parser kept nesting levels of the element before'
    if bytes(fresh_de(d)) != deepest_element():
        return 'the following element (nested to the limit) parsed to something else: the parser is not positioned at the end of the element before'
    try:
        parser.parse_next()
    except Exception:
        return None
    return 'the parser found yet another element after the end of its buffer'


def eval_element(e, label: str):
    """All oracles for one reference element.  None if they hold, else
    (check, signature-extras, message)."""
    from bumble.sdp import DataElement, DataElementParser

    ref = ref_de(e)
    try:
        wire = bytes(build(e))
    except Exception as x:
        return ('sdp_element', {'how': f'exception:{cm.exc_name(x)}', 'stage': 'serialise'}, f'{label}: serialising raised {cm.exc_name(x)}: {x}')
    if wire != ref:
        return ('sdp_element', {'how': 'bytes_differ_from_spec_encoding'}, f'{label}: serialised {cm.short(wire)} spec encoding {cm.short(ref)} ({cm.bytes_diff(ref, wire)})')
    try:
        p = DataElement.from_bytes(ref)
        end, p_off = DataElement.parse_from_bytes(b'\x00\x00\x00' + ref + b'\x35\x00', 3)
        # the parser object itself: every internal counter must be back where it started
        parser = DataElementParser(ref + deepest_element())
        p_direct = parser.parse_next()
    except Exception as x:
        return ('sdp_element', {'how': f'exception:{cm.exc_name(x)}', 'stage': 'parse'}, f'{label}: serialises to {cm.short(ref)} but parsing raised {cm.exc_name(x)}: {x}')
    r = cmp_de(e, p) or cmp_de(e, p_off) or cmp_de(e, p_direct)
    if r:
        if cm.reason_kind(r) == 'uuid_width':
            return ('uuid_width_alias', None, f'sdp {label}: bytes->parse: {r}')
        return ('sdp_element', {'how': 'parsed_value_differs'}, f'{label}: bytes->parse: {r}')
    if end != 3 + len(ref):
        return ('sdp_element', {'how': 'end_offset'}, f'{label}: parse_from_bytes consumed up to {end}, element ends at {3 + len(ref)}')
    left = parser_left_clean(parser) or limit_still_enforced(ref)
    if left:
        return ('sdp_parser_state', None, f'{label}: after parsing one complete element ({cm.short(ref)}) with a parser: {left}')
    try:
        again = bytes(fresh_de(p))
        direct = bytes(p_off)
    except Exception as x:
        return ('sdp_element', {'how': f'exception:{cm.exc_name(x)}', 'stage': 'reserialise'}, f'{label}: re-serialising raised {cm.exc_name(x)}: {x}')
    if again != ref:
        return ('sdp_element', {'how': 'rebuild_bytes_differ'}, f'{label}: parse->rebuild->bytes {cm.short(again)} != {cm.short(ref)} ({cm.bytes_diff(ref, again)})')
    if direct != ref:
        return ('sdp_element', {'how': 'reserialise_bytes_differ'}, f'{label}: bytes(parsed) {cm.short(direct)} != {cm.short(ref)}')
    return None


def file_result(rec: Rec, key, e, label: str, res, sig_case: str | None = None):
    case = {'unit': 'data_element', 'label': label}
    if res is None:
        return rec.ok(key)
    check, extra, msg = res
    if check == 'uuid_width_alias':
        return rec.bad(key, check, cm.UUID_ALIAS_SIG, msg, case)
    if check == 'sdp_parser_state':
        return rec.bad(key, check, PARSER_STATE_SIG, msg, case)
    rec.bad(key, check, dict({'unit': 'DataElement', 'element': elem_class(e), 'case': sig_case or label}, **extra), msg, case)


def check_element(rec: Rec, e, label: str, key):
    file_result(rec, key, e, label, eval_element(e, label))


# ---------------------------------------------------------------------------
# wide (many children) rather than deep trees
# ---------------------------------------------------------------------------
WIDE_N = [0, 1, 2, 31, 32, 33, 64]
WIDE_CHILDREN = {
    'empty_seq': ('seq', []),
    'empty_alt': ('alt', []),
    'seq1': ('seq', [('uint', 1, 7)]),
    'nil': ('nil',),
    'uint16': ('uint', 2, 0x0100),
}


def wrap(e, outer_depth: int):
    """Put `e` at nesting level `outer_depth` (1 = top level)."""
    for _ in range(outer_depth - 1):
        e = ('seq', [e])
    return e


def wide_cases():
    out = []
    kinds = list(WIDE_CHILDREN)
    for outer in ('seq', 'alt'):
        for depth in (1, 2, 3):
            for n in WIDE_N:
                for ck, child in WIDE_CHILDREN.items():
                    out.append(({'outer': outer, 'outer_depth': depth, 'children': n, 'child': ck}, wrap((outer, [child] * n), depth)))
                if n >= 2:
                    mixed = [WIDE_CHILDREN[kinds[i % len(kinds)]] for i in range(n)]
                    out.append(({'outer': outer, 'outer_depth': depth, 'children': n, 'child': 'mixed'}, wrap((outer, mixed), depth)))
    return out


def service_records(n: int, empty_kind='seq'):
    """n service records (attribute id / value pairs), each with an optional list attribute
    that is present but empty - real nesting depth 3."""
    return ('seq', [
        ('seq', [
            ('uint', 2, 0x0000), ('uint', 4, 0x00010000 + i),
            ('uint', 2, 0x0001), ('seq', [('uuid', (0x1101).to_bytes(2, 'little'))]),
            ('uint', 2, 0x0005), (empty_kind, []),
        ])
        for i in range(n)
    ])


def check_wide(rec: Rec):
    cases = wide_cases()
    results = []
    for c, e in rec.seq(cases):
        label = f"wide:{c['outer']}@{c['outer_depth']}x{c['children']}:{c['child']}"
        res = eval_element(e, label)
        results.append((c, e, label, res))
        key = ('de_wide', c['outer'], c['outer_depth'], c['children'], c['child'])
        if res is None:
            rec.ok(key)
        elif res[0] in ('uuid_width_alias', 'sdp_parser_state'):
            file_result(rec, key, e, label, res)
        else:
            rec.st.case(key)
            if rec.keep:
                rec._out(key, res[0] + ':' + cm.core.canon_json(res[1]))
    # one violation per failure mode, characterised over the whole product space
    modes = sorted({(r[0], cm.core.canon_json(r[1])) for _, _, _, r in results if r and r[0] == 'sdp_element'})
    proj = [dict(c, **{'child_is_empty_container': c['child'] in ('empty_seq', 'empty_alt'), 'children>=31': c['children'] >= 31}) for c, _, _, _ in results]
    for check, extra_json in modes:
        failing = [bool(r and r[0] == check and cm.core.canon_json(r[1]) == extra_json) for _, _, _, r in results]
        when = cm.explain(proj, failing)
        lst = [(c, r[2]) for (c, _, _, r), bad in zip(results, failing) if bad]
        c0, m0 = lst[0] if rec.order > 0 else lst[-1]
        import json as _json

        sig = dict({'unit': 'DataElement', 'shape': 'wide_container', 'failing_when': when if when is not None else 'no simple characterisation'}, **_json.loads(extra_json))
        rec.st.violation('sdp_element', sig, f'wide SDP containers: {len(lst)} of {len(results)} shapes fail exactly when {when}; e.g. {c0}: {m0}', {'unit': 'de_wide', 'c': c0})
    # realistic wide-and-shallow values
    for n in rec.seq([1, 30, 36, 64]):
        for kind in ('seq', 'alt'):
            label = f'records{n}:{kind}'
            e = service_records(n, kind)
            file_result(rec, ('de_records', n, kind), e, label, eval_element(e, label), sig_case=f'service_records_with_empty_{kind}')
    rec.st.count('wide_shapes', len(cases))
    rec.st.samples.append({'wide_trees': len(cases), 'children': WIDE_N, 'child_kinds': list(WIDE_CHILDREN) + ['mixed'], 'outer_depths': [1, 2, 3]})
    # canonical (visiting-order independent) list for the back-to-back grouping
    return [(f"wide:{c['outer']}@{c['outer_depth']}x{c['children']}:{c['child']}", e) for c, e in cases]


def check_back_to_back(rec: Rec, items):
    """Several complete values one after the other through ONE parser object (what a
    caller walking an attribute list does): each must come out equal, the parser must be
    at depth 0 between values and must end exactly at the end of the buffer."""
    from bumble.sdp import DataElementParser

    items = list(items)
    groups = [items[i : i + 3] for i in range(0, len(items), 3)]
    n = 0
    for g in rec.seq(groups):
        key = ('de_b2b', tuple(l for l, _ in g))
        data = b''.join(ref_de(e) for _, e in g)
        n += 1
        case = {'unit': 'de_b2b', 'labels': [l for l, _ in g]}
        try:
            parser = DataElementParser(data + deepest_element())
            bad = None
            for label, e in g:
                d = parser.parse_next()
                r = cmp_de(e, d)
                if r:
                    bad = ('sdp_element', f'{label} (parsed after {g[0][0]}...): {r}')
                    break
            if bad is None:
                left = parser_left_clean(parser)
                if left:
                    bad = ('sdp_parser_state', f'after {[l for l, _ in g]} with one parser: {left}')
        except Exception as x:
            bad = ('sdp_element', f'values {[l for l, _ in g]} each serialise and parse alone, but parsing them back-to-back with one parser raised {cm.exc_name(x)}: {x}')
        if bad is None:
            rec.ok(key)
        elif bad[0] == 'sdp_parser_state':
            rec.bad(key, 'sdp_parser_state', PARSER_STATE_SIG, bad[1], case)
        else:
            rec.bad(key, 'sdp_element', {'unit': 'DataElementParser', 'how': 'back_to_back_parse_differs'}, bad[1], case)
    rec.st.count('back_to_back_groups', n)


def check_refusal(rec: Rec, label: str, key, make, ref: bytes):
    """Units the implementation documents as unsupported: must be refused in *both*
    directions (an asymmetric refusal would be a round-trip failure)."""
    from bumble.sdp import DataElement

    ser = par = None
    try:
        bytes(make())
    except Exception as x:
        ser = cm.exc_name(x)
    try:
        DataElement.from_bytes(ref)
    except Exception as x:
        par = cm.exc_name(x)
    if (ser is None) != (par is None):
        return rec.bad(key, 'sdp_element', {'unit': 'DataElement', 'case': label, 'how': 'asymmetric_support', 'serialise': ser or 'ok', 'parse': par or 'ok'}, f'{label}: serialise {"raises " + ser if ser else "works"} but parse {"raises " + par if par else "works"}', {'unit': 'data_element', 'label': label})
    rec.note(key, f'refused_both:{ser}' if ser else 'supported')
    rec.st.add('refused_in_both_directions' if ser else 'supported_extra', label)


def check_elements(rec: Rec, big: bool):
    from bumble.sdp import DataElement
    from bumble import sdp

    st = rec.st
    items = [(f'leaf:{elem_class(e)}:{i}', e) for i, e in enumerate(leaf_elements(rec, big))]
    items += [(f'composite:{i}', e) for i, e in enumerate(composite_elements(rec))]
    limit = sdp._MAX_DATA_ELEMENT_NESTING
    # the parser counts list levels: `limit` nested lists is the deepest accepted
    items += [(f'depth{d}', nested(d)) for d in range(1, limit + 1)]
    items += [(f'altdepth{d}', nested(d, 'alt')) for d in (1, 2, limit)]
    for label, e in rec.seq(items):
        check_element(rec, e, label, ('de', label))
        st.add('element_classes', elem_class(e))
    st.count('elements', len(items))
    wide = check_wide(rec)
    small = [(l, e) for l, e in items if len(ref_de(e)) < 2000]
    check_back_to_back(rec, small + wide)
    # past the documented nesting limit: parser refuses by design (hardening); counted, not judged
    e = nested(limit + 1)
    try:
        DataElement.from_bytes(ref_de(e))
        rec.note(('de', 'depth_limit+1'), 'parsed')
        st.add('nesting_limit', 'limit+1 accepted')
    except Exception as x:
        rec.note(('de', 'depth_limit+1'), f'refused:{cm.exc_name(x)}')
        st.add('nesting_limit', f'limit+1 refused by parser ({cm.exc_name(x)})')
    # 128-bit integers exist in the spec; bumble supports neither direction
    for kind in ('uint', 'sint'):
        t = TYPE[kind]
        v = 1 << 100
        ref = bytes([t << 3 | 4]) + v.to_bytes(16, 'big')
        mk = (lambda k=kind, v=v: DataElement.unsigned_integer(v, 16) if k == 'uint' else DataElement.signed_integer(v, 16))
        check_refusal(rec, f'{kind}128', ('de', f'{kind}128'), mk, ref)
    # non-minimal size descriptors are legal on the wire: value must parse equal and the
    # parsed element must re-serialise byte for byte
    for label, e in rec.seq([('text5', ('text', b'hello')), ('seq', ('seq', [('uint', 1, 7), ('text', b'ab')])), ('url', ('url', 'a:b')), ('alt0', ('alt', []))]):
        for idx in (6, 7):
            key = ('de_nonminimal', label, idx)
            ref = ref_de(e, force_index=idx)
            sig = {'unit': 'DataElement', 'element': e[0], 'case': f'size_index{idx}_nonminimal'}
            try:
                p = DataElement.from_bytes(ref)
                r = cmp_de(e, p)
                out = bytes(p)
            except Exception as x:
                rec.bad(key, 'sdp_element', dict(sig, how=f'exception:{cm.exc_name(x)}'), f'non-minimal {label}/{idx}: {x}', {'unit': 'data_element', 'label': label})
                continue
            if r or out != ref:
                rec.bad(key, 'sdp_element', dict(sig, how='mismatch'), f'non-minimal {label}/{idx}: {r or cm.bytes_diff(ref, out)}', {'unit': 'data_element', 'label': label})
            else:
                rec.ok(key)
    st.samples.append({'data_elements': len(items), 'text/url/sequence/alternative content sizes': [0, 1, 255, 256] + ([65535, 65536] if big else []), 'nesting': f'1..{limit} and {limit + 1}'})


# ---------------------------------------------------------------------------
class SdpAdapter(Adapter):
    proto = 'sdp'

    def __init__(self, big: bool):
        self.big = big

    def classes(self):
        from bumble import sdp

        return sorted(sdp.SDP_PDU.subclasses.items(), key=lambda kv: int(kv[0]))

    def pre_slots(self, key, cls, rec):
        return [Slot('transaction_id', [(hex(v), {'transaction_id': v}, None) for v in (1, 0, 0xFF, 0x100, 0xFFFF)])]

    def custom(self, cls, name, spec, rec):
        from bumble import sdp

        if spec == sdp.DataElement.parse_from_bytes:
            els = [
                ('uuids', ('seq', [('uuid', cm.REG16.to_bytes(2, 'little')), ('uuid', cm.CUSTOM128_LE)])),
                ('empty', ('seq', [])),
                ('ranges', ('seq', [('uint', 2, 0x0001), ('uint', 4, 0x0000FFFF)])),
                ('len256', sized_container('seq', 256, rec)),
                ('uuid32', ('seq', [('uuid', cm.CUSTOM32.to_bytes(4, 'little'))])),
                ('alias128', ('seq', [('uuid', cm.BASE_LE + cm.REG16.to_bytes(2, 'little') + b'\x00\x00')])),
                # wide rather than deep lists
                ('wide33_empty_alt', ('seq', [('alt', [])] * 33 + [('seq', [('uint', 2, 4)])])),
                ('wide64_empty_seq', ('seq', [('seq', [])] * 64)),
                ('wide32_seq1', ('seq', [('seq', [('uint', 1, 7)])] * 32)),
                ('wide64_mixed', ('seq', [list(WIDE_CHILDREN.values())[i % 5] for i in range(64)])),
                ('wide31_nil@3', wrap(('alt', [('nil',)] * 31), 3)),
            ]
            return [(l, DEValue(e), ref_de(e)) for l, e in els]
        if name == 'service_record_handle_list':
            lists = [[], [0x00010001], [0, 0xFFFFFFFF, 0x10000], list(range(0x10000, 0x10000 + 300))]
            return [(f'handles{len(l)}', l, struct.pack('>H', len(l)) + b''.join(struct.pack('>I', h) for h in l)) for l in lists]
        if name in ('attribute_list', 'attribute_lists'):
            sizes = [0, 1, 255, 256] + ([65000] if self.big else [])
            return [(f'len{n}', rec.fill(n, n), struct.pack('>H', n) + rec.fill(n, n)) for n in sizes]
        if name == 'continuation_state':
            # InfoLength octet + that many octets (Part B 4.3)
            return [('none', b'\x00', b'\x00'), ('one', b'\x01\x07', b'\x01\x07'), ('max16', b'\x10' + rec.fill(16, 2), b'\x10' + rec.fill(16, 2))]
        return None

    def make(self, key, cls, values):
        vals = {n: (build(v.e) if isinstance(v, DEValue) else v) for n, v in values.items()}
        return cls(**vals)

    def decode(self, key, cls, data):
        from bumble import sdp

        return sdp.SDP_PDU.from_bytes(data)

    def header_ref(self, key, cls, values, body):
        return struct.pack('>BHH', int(key), values['transaction_id'], len(body))

    def rebuild(self, key, cls, parsed, names):
        return cls(**{n: cm.fresh(getattr(parsed, n)) for n in names})


def check_pdu_attribute_lists(rec: Rec):
    """Responses carry their data-element list as a length-prefixed byte field: what the
    PDU hands back must still parse to the tree that went in (this is what sdp.Client does)."""
    from bumble import sdp

    trees = [
        ('records1', service_records(1)),
        ('records36_empty_seq', service_records(36, 'seq')),
        ('records36_empty_alt', service_records(36, 'alt')),
        ('wide64_empty_seq', ('seq', [('seq', [])] * 64)),
        ('wide33_mixed', ('seq', [list(WIDE_CHILDREN.values())[i % 5] for i in range(33)])),
        ('lists_of_lists', ('seq', [service_records(12, 'seq'), service_records(12, 'alt'), service_records(12, 'seq')])),
    ]
    for cls, field in rec.seq([(sdp.SDP_ServiceAttributeResponse, 'attribute_list'), (sdp.SDP_ServiceSearchAttributeResponse, 'attribute_lists')]):
        for label, e in rec.seq(trees):
            key = ('sdp_pdu_list', cls.__name__, label)
            case = {'unit': 'sdp_pdu_list', 'cls': cls.__name__, 'label': label}
            body = ref_de(e)
            ref = bytes([int(cls.pdu_id)]) + (9).to_bytes(2, 'big') + (2 + len(body) + 1).to_bytes(2, 'big') + len(body).to_bytes(2, 'big') + body + b'\x00'
            sig = {'unit': cls.__name__, 'field': field, 'tree': label}
            try:
                wire = bytes(cls(transaction_id=9, **{field: bytes(build(e)), 'continuation_state': b'\x00'}))
                if wire != ref:
                    rec.bad(key, 'sdp_pdu_list', dict(sig, how='bytes_differ_from_spec_encoding'), f'{cls.__name__} {label}: {cm.bytes_diff(ref, wire)}', case)
                    continue
                p = sdp.SDP_PDU.from_bytes(ref)
                parser = sdp.DataElementParser(bytes(getattr(p, field)) + deepest_element())
                d = parser.parse_next()
                r = cmp_de(e, d)
                state = parser_left_clean(parser)
                again = bytes(cls(transaction_id=p.transaction_id, **{field: bytes(fresh_de(d)), 'continuation_state': p.continuation_state}))
            except Exception as x:
                rec.bad(key, 'sdp_pdu_list', dict(sig, how=f'exception:{cm.exc_name(x)}'), f'{cls.__name__} carrying {label}: serialises, but reading the list back raised {cm.exc_name(x)}: {x}', case)
                continue
            if r or again != ref:
                rec.bad(key, 'sdp_pdu_list', dict(sig, how='mismatch'), f'{cls.__name__} {label}: {r or cm.bytes_diff(ref, again)}', case)
            elif state:
                rec.bad(key, 'sdp_parser_state', PARSER_STATE_SIG, f'{cls.__name__} {label}: {state}', case)
            else:
                rec.ok(key)


def run(rec: Rec, k: int, big: bool):
    check_elements(rec, big)
    cm.run_adapter(SdpAdapter(big), rec, k)
    check_pdu_attribute_lists(rec)
