"""C18 / history: "... whatever has been parsed or constructed earlier in the same
process".

(a) UUID registry: for every sequence of one or two operations drawn from a
    12-operation alphabet (parse / construct / register an equal-valued UUID of each
    width, by every public entry point; parse a PDU with an unknown class code), applied
    to a value never seen by the process before, each of the three wire forms of that
    value must still parse to a UUID of its own width and re-serialise identically.
(b) class registries: parsing PDUs with unknown codes must not alter any registry.
(c) the whole C18 enumeration is executed twice in one process - second time in
    reversed visiting order - and every case must have the same outcome both times.
"""
from __future__ import annotations

from . import c18_common as cm
from .c18_common import Rec

_next_value = [0x4000]


def fresh_value() -> int:
    """A 16-bit value no UUID object of this process equals yet."""
    from bumble.core import UUID

    taken = {u.uuid_128_bytes for u in UUID.UUIDS}
    while True:
        v = _next_value[0]
        _next_value[0] += 1
        if v > 0xFFF0:
            raise RuntimeError('ran out of fresh 16-bit values')
        if cm.BASE_LE + v.to_bytes(2, 'little') + b'\x00\x00' not in taken:
            return v


def forms(v: int) -> dict[int, bytes]:
    return {2: v.to_bytes(2, 'little'), 4: v.to_bytes(4, 'little'), 16: cm.BASE_LE + v.to_bytes(2, 'little') + b'\x00\x00'}


def ops():
    """name -> (callable(v), width it registers or None)."""
    from bumble import att, smp
    from bumble.core import UUID

    def hex128(v):
        h = forms(v)[16][::-1].hex()
        return f'{h[0:8]}-{h[8:12]}-{h[12:16]}-{h[16:20]}-{h[20:32]}'

    return [
        ('from_bytes_16bit', lambda v: UUID.from_bytes(forms(v)[2]), 2),
        ('from_bytes_32bit', lambda v: UUID.from_bytes(forms(v)[4]), 4),
        ('from_bytes_128bit', lambda v: UUID.from_bytes(forms(v)[16]), 16),
        ('construct_int', lambda v: UUID(v), None),
        ('construct_hex32', lambda v: UUID(f'{v:08X}'), None),
        ('construct_str128', lambda v: UUID(hex128(v)), None),
        ('from_16_bits_named', lambda v: UUID.from_16_bits(v, 'c18-name'), 2),
        ('from_32_bits', lambda v: UUID.from_32_bits(v), 4),
        ('register_128', lambda v: UUID(hex128(v), 'c18-128').register(), 16),
        ('parse_uuid_128', lambda v: UUID.parse_uuid(b'\x00' + forms(v)[16], 1), 16),
        ('parse_uuid_2', lambda v: UUID.parse_uuid_2(forms(v)[2] + b'\x00', 0), 2),
        ('parse_unknown_class_codes', lambda v: (att.ATT_PDU.from_bytes(b'\x3f\x01'), smp.SMP_Command.from_bytes(b'\x7f\x01')), None),
    ]


def check_uuid_history(rec: Rec):
    from bumble.core import UUID

    alphabet = ops()
    prefixes = [(a,) for a in alphabet] + [(a, b) for a in alphabet for b in alphabet]
    results = []
    for prefix in rec.seq(prefixes):
        first_reg = next((w for _, _, w in prefix if w is not None), None)
        for w in (2, 4, 16):
            v = fresh_value()
            names = tuple(n for n, _, _ in prefix)
            key = ('uuid_history', names, w)
            how = None
            try:
                for _, fn, _ in prefix:
                    fn(v)
                le = forms(v)[w]
                u = UUID.from_bytes(le)
                out = bytes(u)
                if out != le:
                    how = f'width {w}->{len(out)}' if u.uuid_128_bytes == forms(v)[16] else 'value'
                elif bytes(UUID.from_bytes(le)) != le:
                    how = 'second_parse'
            except Exception as e:
                how = f'exception:{cm.exc_name(e)}'
            results.append(({'prefix': names, 'w': w, 'first_registered_width': first_reg}, how))
            if how is None:
                rec.ok(key)
            else:
                rec.st.case(key)
                if rec.keep:
                    rec._out(key, how)
    failing = [h is not None for _, h in results]
    rec.st.count('uuid_history_sequences', len(prefixes))
    rec.st.count('uuid_history_cases', len(results))
    if any(failing):
        pred = lambda c: c['first_registered_width'] is not None and c['first_registered_width'] != c['w']  # noqa
        only_width = all(h is None or h.startswith('width') for _, h in results)
        exact = all(bool(pred(c)) == bad for (c, _), bad in zip(results, failing))
        c0, h0 = next((c, h) for c, h in results if h)
        if only_width and exact:
            rec.st.violation(
                'uuid_width_alias',
                cm.UUID_ALIAS_SIG,
                f'UUID round-trip depends on history: {sum(failing)} of {len(results)} (operation sequence, width) cases fail, exactly those where an equal UUID of another width was registered first; e.g. after {list(c0["prefix"])} the {c0["w"]}-byte form parses with {h0}',
                {'unit': 'uuid_history', 'prefix': list(c0['prefix']), 'w': c0['w']},
            )
        else:
            c1, h1 = next(((c, h) for (c, h), bad in zip(results, failing) if bad and (not (h or '').startswith('width') or not pred(c))), (c0, h0))
            rec.st.violation(
                'uuid_history',
                {'unit': 'UUID', 'how': 'history_dependent_other', 'first': h1},
                f'UUID round-trip after {list(c1["prefix"])} for the {c1["w"]}-byte form: {h1}',
                {'unit': 'uuid_history', 'prefix': list(c1['prefix']), 'w': c1['w']},
            )
    rec.st.samples.append({'uuid_history': f'{len(alphabet)} operations, all sequences of length 1 and 2, x 3 widths, each on a fresh value'})


def registries():
    from bumble import att, avdtp, avrcp, l2cap, sdp, smp, avc

    return {
        'l2cap': l2cap.L2CAP_Control_Frame.classes,
        'att': att.ATT_PDU.pdu_classes,
        'smp': smp.SMP_Command.smp_classes,
        'sdp': sdp.SDP_PDU.subclasses,
        'avdtp': avdtp.Message.subclasses,
        'avrcp_command': avrcp.Command.subclasses,
        'avrcp_response': avrcp.Response.subclasses,
        'avrcp_event': avrcp.Event.subclasses,
        'avrcp_item': avrcp.BrowseableItem.subclasses,
        'avc_command': avc.CommandFrame.subclasses,
        'avc_response': avc.ResponseFrame.subclasses,
    }


def snapshot():
    out = {}
    for name, reg in registries().items():
        if name == 'avdtp':
            out[name] = sorted((int(k), int(k2), c.__name__) for k, d in reg.items() for k2, c in d.items())
        else:
            out[name] = sorted((int(k), c.__name__) for k, c in reg.items())
    return out


def check_registries(rec: Rec):
    from bumble import att, avc, avdtp, l2cap, smp

    before = snapshot()
    probes = [
        ('l2cap', lambda: l2cap.L2CAP_Control_Frame.from_bytes(b'\x7f\x01\x01\x00\xaa')),
        ('att', lambda: att.ATT_PDU.from_bytes(b'\x3f\x01')),
        ('smp', lambda: smp.SMP_Command.from_bytes(b'\x7f\x01')),
        ('avdtp', lambda: avdtp.Message.create(avdtp.SignalIdentifier(0x3F), avdtp.Message.MessageType.COMMAND, b'\x01')),
        ('avc', lambda: avc.Frame.from_bytes(b'\x00\x48\x55\x01')),
    ]
    for name, fn in rec.seq(probes):
        key = ('registry', name)
        try:
            fn()
            fn()
        except Exception as e:
            rec.bad(key, 'registry', {'unit': name, 'how': f'exception:{cm.exc_name(e)}'}, f'unknown code probe for {name}: {e}', {'unit': 'registry', 'name': name})
            continue
        after = snapshot()
        if after != before:
            rec.bad(key, 'registry', {'unit': name, 'how': 'registry_changed_by_parsing'}, f'parsing an unknown {name} code changed a class registry', {'unit': 'registry', 'name': name})
        else:
            rec.ok(key)


def compare_passes(st, name: str, a: Rec, b: Rec):
    """Every case of sub-check `name` must have had the same outcome in both passes."""
    ka, kb = set(a.outcomes), set(b.outcomes)
    diffs = []
    for d in sorted(ka ^ kb):
        diffs.append((d, a.outcomes.get(d, '(not visited)'), b.outcomes.get(d, '(not visited)')))
    for d in sorted(ka & kb):
        if a.outcomes[d] != b.outcomes[d]:
            diffs.append((d, a.outcomes[d], b.outcomes[d]))
    va = sorted(v.key for v in a.st.violations)
    vb = sorted(v.key for v in b.st.violations)
    st.count('cases_compared_across_passes', len(ka & kb))
    if diffs or va != vb:
        d0 = diffs[0] if diffs else ('-', str(va), str(vb))
        label = a.labels.get(d0[0]) or b.labels.get(d0[0]) or d0[0]
        st.violation(
            'history_passes',
            {'sub': name, 'how': 'second_pass_in_same_process_differs'},
            f'{name}: {len(diffs)} case(s) behave differently when the enumeration is repeated (reversed) in the same process; first: {label}: first pass {d0[1][:160]}, second pass {d0[2][:160]}',
            {'unit': 'passes', 'sub': name},
        )
