"""In-memory file layer for C15 (JSON key store).

`bumble.keys` reaches the file system through three module-level names only:
the builtin `open`, `os` (for `os.replace`) and `pathlib` (for `Path.resolve`,
`.exists`, `.mkdir`).  `install()` sets those three *module attributes of
bumble.keys* to the proxies below (nothing in /repo is edited, nothing outside
`bumble.keys` sees them).  While a `VFS` is active (`with vfs:`) every call is
served from memory and counted as one numbered *file-system step*; when no VFS is
active the proxies fall through to the real functions, so the same patched
module also runs on a real scratch directory (used to validate this layer).

What the layer models — process death, not power loss:
 * a name table  path -> inode, inode -> bytes that have reached the OS;
 * per open-for-writing handle a user-space buffer (what `write()` accepted but
   `flush()/close()` has not handed to the OS yet).  At a crash the OS keeps the
   inode bytes plus *some prefix* of that buffer (the stdio buffer may have been
   flushed at any size boundary), so the possible on-disk states after dying at
   step n are  inode + buffer[:k]  for any k; the caller enumerates prefix
   classes {none, half, all-but-one, all};
 * `open(.., 'w')` creates/truncates at once, `os.replace` is atomic,
   `mkdir(parents=True)` is one step per directory created.

`VFS.record=True` makes a fault-free run keep, for every step n, the state
"what would be on disk if the process died just before step n" (cheaply: the
name table is re-frozen only at non-write steps, writes only add a buffer
length).  `VFS.crash_at=n` instead raises `SimulatedCrash` (a BaseException) at
step n and freezes the layer: every later file-system call raises again and
changes nothing, so `with`/`finally` clean-up code cannot write after death.
"""
from __future__ import annotations

import builtins
import io
import os as _real_os
import pathlib as _real_pathlib

CURRENT: 'VFS | None' = None


class SimulatedCrash(BaseException):
    pass


class Unsupported(Exception):
    """The code under test used a file-system call this layer does not model."""


def _p(path) -> str:
    return _real_os.fspath(path)


class Inode:
    __slots__ = ('data', 'ino')
    _n = 0

    def __init__(self, data: bytes = b''):
        self.data = data
        Inode._n += 1
        self.ino = Inode._n


class WHandle:
    """File opened for writing (text or binary) with a user-space buffer."""

    def __init__(self, vfs: 'VFS', inode: Inode, path: str, binary: bool):
        self.vfs = vfs
        self.inode = inode
        self.path = path
        self.binary = binary
        self.buf = b''
        self.closed = False
        self.name = path

    def write(self, s):
        if self.closed and not self.vfs.dead:
            raise ValueError('I/O operation on closed file.')
        b = bytes(s) if self.binary else s.encode('utf-8')
        self.vfs.step('write', self.path)
        self.buf += b
        return len(s)

    def writelines(self, lines):
        for ln in lines:
            self.write(ln)

    def _to_os(self):
        if self.buf:
            self.inode.data = self.inode.data + self.buf
            self.buf = b''

    def flush(self):
        self.vfs.step('flush', self.path)
        self._to_os()

    def close(self):
        if self.closed:
            return
        self.vfs.step('close', self.path)
        self._to_os()
        self.closed = True
        self.vfs.writers.remove(self)

    def fileno(self):
        return 1000 + self.inode.ino

    def writable(self):
        return True

    def readable(self):
        return False

    def __enter__(self):
        return self

    def __exit__(self, *a):
        self.close()
        return False


class VFS:
    def __init__(self, files: dict | None = None, dirs=('/', '/c15')):
        self.dirs = set(dirs)
        self.names: dict[str, Inode] = {}
        for path, data in (files or {}).items():
            self.names[path] = Inode(bytes(data))
        self.writers: list[WHandle] = []
        self.steps = 0
        self.log: list[tuple] = []
        self.crash_at = None
        self.dead = False
        self.record = False
        self.timeline: list = []
        self._base = None  # frozen name table, valid while no non-write step happened
        self._prev = None
        # read-dependency tracking: which parts of the INITIAL image the code has looked at
        # ('content' of a path, or only whether it 'exists' and as what)
        self.deps: dict[str, str] = {}
        self._own: set[str] = set()  # paths whose current state was produced in this session

    # ---- activation -----------------------------------------------------------
    def __enter__(self):
        global CURRENT
        self._prev = CURRENT
        CURRENT = self
        return self

    def __exit__(self, *a):
        global CURRENT
        CURRENT = self._prev
        return False

    # ---- stepping ---------------------------------------------------------------
    def step(self, kind: str, arg: str):
        if self.dead:
            raise SimulatedCrash()
        if self.crash_at is not None and self.steps == self.crash_at:
            self.dead = True
            raise SimulatedCrash()
        if self.record:
            self.timeline.append(self.frozen())
        if kind != 'write':
            self._base = None
        self.log.append((kind, _real_os.path.basename(arg)))
        self.steps += 1

    def frozen(self):
        """(dirs, ((path, ino),..), {ino: bytes}, ((ino, unflushed bytes),..)) — immutable."""
        if self._base is None:
            self._base = (
                tuple(sorted(self.dirs)),
                tuple(sorted((p, i.ino) for p, i in self.names.items())),
                {i.ino: i.data for i in self.names.values()},
            )
        return self._base + (tuple((w.inode.ino, w.buf) for w in self.writers),)

    def _dep(self, path: str, kind: str):
        if path in self._own:
            return
        if kind == 'content' or path not in self.deps:
            self.deps[path] = kind

    def image(self):
        """Files as the OS has them right now (no user-space buffers)."""
        return {p: i.data for p, i in self.names.items()}

    # ---- operations ---------------------------------------------------------------
    def _parent_ok(self, path: str):
        parent = _real_os.path.dirname(path)
        self._dep(parent, 'exists')
        if parent not in self.dirs:
            raise FileNotFoundError(2, 'No such file or directory', path)

    def open(self, path, mode='r', buffering=-1, encoding=None, errors=None, newline=None, **kw):
        path = _p(path)
        binary = 'b' in mode
        kind = mode.replace('b', '').replace('t', '')
        if kind == 'r':
            self.step('open_r', path)
            self._dep(path, 'content')
            ino = self.names.get(path)
            if ino is None:
                if path in self.dirs:
                    raise IsADirectoryError(21, 'Is a directory', path)
                raise FileNotFoundError(2, 'No such file or directory', path)
            data = ino.data
            return io.BytesIO(data) if binary else io.StringIO(data.decode(encoding or 'utf-8'))
        if kind in ('w', 'x', 'a'):
            self.step('open_' + kind, path)
            self._dep(path, 'exists' if kind == 'w' else 'content')
            self._parent_ok(path)
            if path in self.dirs:
                raise IsADirectoryError(21, 'Is a directory', path)
            ino = self.names.get(path)
            if kind == 'x' and ino is not None:
                raise FileExistsError(17, 'File exists', path)
            if ino is None:
                ino = self.names[path] = Inode()
            elif kind == 'w':
                ino.data = b''  # O_TRUNC takes effect at open
            if kind == 'w':
                self._own.add(path)
            h = WHandle(self, ino, path, binary)
            self.writers.append(h)
            return h
        raise Unsupported(f'open mode {mode!r}')

    def exists(self, path) -> bool:
        path = _p(path)
        self._dep(path, 'exists')
        return path in self.dirs or path in self.names

    def is_dir(self, path) -> bool:
        self._dep(_p(path), 'exists')
        return _p(path) in self.dirs

    def is_file(self, path) -> bool:
        self._dep(_p(path), 'exists')
        return _p(path) in self.names

    def mkdir(self, path, parents=False, exist_ok=False):
        path = _p(path)
        self._dep(path, 'exists')
        if path in self.dirs or path in self.names:
            if exist_ok and path in self.dirs:
                return
            raise FileExistsError(17, 'File exists', path)
        parent = _real_os.path.dirname(path)
        self._dep(parent, 'exists')
        if parent not in self.dirs:
            if not parents:
                raise FileNotFoundError(2, 'No such file or directory', path)
            self.mkdir(parent, parents=True, exist_ok=True)
        self.step('mkdir', path)
        self.dirs.add(path)
        self._own.add(path)

    def replace(self, src, dst):
        src, dst = _p(src), _p(dst)
        self.step('replace', dst)
        self._dep(src, 'content')
        self._dep(dst, 'exists')
        if src not in self.names:
            raise FileNotFoundError(2, 'No such file or directory', src)
        self._parent_ok(dst)
        if dst in self.dirs:
            raise IsADirectoryError(21, 'Is a directory', dst)
        self.names[dst] = self.names.pop(src)
        self._own.add(src)
        self._own.add(dst)

    def remove(self, path):
        path = _p(path)
        self.step('remove', path)
        self._dep(path, 'exists')
        if path not in self.names:
            raise FileNotFoundError(2, 'No such file or directory', path)
        del self.names[path]
        self._own.add(path)

    def fsync(self, fd):
        # process death only: bytes handed to the OS survive with or without fsync
        self.step('fsync', str(fd))


# ---------------------------------------------------------------------------
# crash materialisation
# ---------------------------------------------------------------------------
PREFIX_CLASSES = ('none', 'half', 'all_but_one', 'all')


def _prefix_len(n: int, cls: str) -> int:
    return {'none': 0, 'half': n // 2, 'all_but_one': max(n - 1, 0), 'all': n}[cls]


def crash_images(frozen):
    """All modelled on-disk states for a process that died in `frozen`:
    yields (prefix_class_tuple, dirs, {path: bytes}); duplicates (short buffers)
    are removed."""
    dirs, names, data, writers = frozen
    live = [(ino, buf) for ino, buf in writers if buf]
    combos = [()]
    for _ in live:
        combos = [c + (k,) for c in combos for k in PREFIX_CLASSES]
    if not live:
        yield ((), dirs, {p: data[ino] for p, ino in names})
        return
    seen = set()
    for combo in combos:
        extra = {}
        for (ino, buf), cls in zip(live, combo):
            extra[ino] = buf[: _prefix_len(len(buf), cls)]
        files = {p: data[ino] + extra.get(ino, b'') for p, ino in names}
        key = tuple(sorted(files.items()))
        if key in seen:
            continue
        seen.add(key)
        yield (combo, dirs, files)


# ---------------------------------------------------------------------------
# proxies installed on bumble.keys
# ---------------------------------------------------------------------------
def vfs_open(file, mode='r', *a, **kw):
    if CURRENT is None:
        return builtins.open(file, mode, *a, **kw)
    return CURRENT.open(file, mode, *a, **kw)


class VPath(_real_pathlib.PosixPath):
    __slots__ = ()

    def resolve(self, strict=False):
        if CURRENT is None:
            return super().resolve(strict)
        if not self.is_absolute():
            raise Unsupported('relative path under the virtual file layer')
        return self

    def exists(self, **kw):
        if CURRENT is None:
            return super().exists(**kw)
        return CURRENT.exists(self)

    def is_dir(self):
        if CURRENT is None:
            return super().is_dir()
        return CURRENT.is_dir(self)

    def is_file(self):
        if CURRENT is None:
            return super().is_file()
        return CURRENT.is_file(self)

    def mkdir(self, mode=0o777, parents=False, exist_ok=False):
        if CURRENT is None:
            return super().mkdir(mode, parents, exist_ok)
        return CURRENT.mkdir(self, parents, exist_ok)

    def open(self, mode='r', buffering=-1, encoding=None, errors=None, newline=None):
        if CURRENT is None:
            return super().open(mode, buffering, encoding, errors, newline)
        return CURRENT.open(self, mode, buffering, encoding, errors, newline)

    def replace(self, target):
        if CURRENT is None:
            return super().replace(target)
        CURRENT.replace(self, target)
        return self.with_segments(target)

    rename = replace

    def unlink(self, missing_ok=False):
        if CURRENT is None:
            return super().unlink(missing_ok)
        try:
            CURRENT.remove(self)
        except FileNotFoundError:
            if not missing_ok:
                raise

    def stat(self, **kw):
        if CURRENT is None:
            return super().stat(**kw)
        raise Unsupported('Path.stat under the virtual file layer')

    def touch(self, *a, **kw):
        if CURRENT is None:
            return super().touch(*a, **kw)
        raise Unsupported('Path.touch under the virtual file layer')


class _PathlibProxy:
    Path = VPath
    PosixPath = VPath

    def __getattr__(self, name):
        return getattr(_real_pathlib, name)


class _OsPathProxy:
    def exists(self, path):
        return _real_os.path.exists(path) if CURRENT is None else CURRENT.exists(path)

    def isdir(self, path):
        return _real_os.path.isdir(path) if CURRENT is None else CURRENT.is_dir(path)

    def isfile(self, path):
        return _real_os.path.isfile(path) if CURRENT is None else CURRENT.is_file(path)

    def __getattr__(self, name):
        return getattr(_real_os.path, name)


class _OsProxy:
    path = _OsPathProxy()

    def replace(self, src, dst, **kw):
        if CURRENT is None:
            return _real_os.replace(src, dst, **kw)
        return CURRENT.replace(src, dst)

    rename = replace

    def remove(self, path, **kw):
        if CURRENT is None:
            return _real_os.remove(path, **kw)
        return CURRENT.remove(path)

    unlink = remove

    def fsync(self, fd):
        if CURRENT is None:
            return _real_os.fsync(fd)
        return CURRENT.fsync(fd)

    def makedirs(self, name, mode=0o777, exist_ok=False):
        if CURRENT is None:
            return _real_os.makedirs(name, mode, exist_ok)
        return CURRENT.mkdir(name, parents=True, exist_ok=exist_ok)

    def mkdir(self, path, mode=0o777, **kw):
        if CURRENT is None:
            return _real_os.mkdir(path, mode, **kw)
        return CURRENT.mkdir(path)

    def __getattr__(self, name):
        if CURRENT is not None and name in ('open', 'write', 'close', 'truncate', 'ftruncate', 'link', 'symlink', 'rmdir', 'stat', 'listdir', 'scandir'):
            raise Unsupported(f'os.{name} under the virtual file layer')
        return getattr(_real_os, name)


_installed = False


def install():
    """Set bumble.keys.open / .os / .pathlib to the proxies (idempotent)."""
    global _installed
    import bumble.keys as bk

    if _installed and getattr(bk, 'open', None) is vfs_open:
        return bk
    bk.open = vfs_open
    bk.os = _OsProxy()
    bk.pathlib = _PathlibProxy()
    _installed = True
    return bk


def dep_key(deps: tuple, dirs, files: dict):
    """Value of an image on a dependency set ((path, 'content'|'exists'), ...)."""
    out = []
    for path, kind in deps:
        if path in dirs:
            out.append('<dir>')
        elif path in files:
            out.append(files[path] if kind == 'content' else '<file>')
        else:
            out.append(None)
    return tuple(out)
