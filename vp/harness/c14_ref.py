"""Independent reference implementations for C14 (crypto back ends).

Everything here is written from the specifications (FIPS-197, RFC 4493, Bluetooth
Core Vol 3 Part H 2.2, SEC 2 / FIPS 186 for P-256) in boring Python and does NOT
import bumble.  The AES S-box and the optional lookup tables are *computed* from
the field definition (nothing is copied from bumble's typed-in tables).

Byte-order convention: functions prefixed `sm_` take and return values in the
little-endian byte order that bumble.crypto's toolbox uses (same argument order
as the toolbox); internally they convert to the spec's most-significant-octet-
first notation and follow the spec text literally.
"""
from __future__ import annotations

# ---------------------------------------------------------------------------
# AES-128 (FIPS-197)
# ---------------------------------------------------------------------------


def _xtime(a: int) -> int:
    a <<= 1
    if a & 0x100:
        a ^= 0x11B
    return a


def _gmul(a: int, b: int) -> int:
    r = 0
    while b:
        if b & 1:
            r ^= a
        a = _xtime(a)
        b >>= 1
    return r


def _make_sbox():
    # multiplicative inverse in GF(2^8) by brute force, then the affine map
    inv = [0] * 256
    for a in range(1, 256):
        for b in range(1, 256):
            if _gmul(a, b) == 1:
                inv[a] = b
                break
    sbox = []
    for a in range(256):
        x = inv[a]
        y = 0
        for i in range(8):
            bit = (
                (x >> i) ^ (x >> ((i + 4) % 8)) ^ (x >> ((i + 5) % 8)) ^ (x >> ((i + 6) % 8)) ^ (x >> ((i + 7) % 8)) ^ (0x63 >> i)
            ) & 1
            y |= bit << i
        sbox.append(y)
    return sbox


SBOX = _make_sbox()
_MUL2 = [_gmul(x, 2) for x in range(256)]
_MUL3 = [_gmul(x, 3) for x in range(256)]


def aes128_key_schedule(key: bytes) -> list[list[int]]:
    """Returns 11 round keys, each a list of 16 bytes (column-major like the state)."""
    assert len(key) == 16
    w = [list(key[4 * i : 4 * i + 4]) for i in range(4)]
    rcon = 1
    for i in range(4, 44):
        t = list(w[i - 1])
        if i % 4 == 0:
            t = t[1:] + t[:1]
            t = [SBOX[b] for b in t]
            t[0] ^= rcon
            rcon = _xtime(rcon)
        w.append([w[i - 4][j] ^ t[j] for j in range(4)])
    return [sum((w[4 * r + c] for c in range(4)), []) for r in range(11)]


def aes128_encrypt_block_slow(key: bytes, block: bytes, rks=None) -> bytes:
    """Textbook SubBytes / ShiftRows / MixColumns / AddRoundKey."""
    assert len(block) == 16
    rks = rks or aes128_key_schedule(key)
    s = [b ^ k for b, k in zip(block, rks[0])]  # s[4*c + r]
    for rnd in range(1, 11):
        s = [SBOX[b] for b in s]
        # ShiftRows: row r rotated left by r; element (r, c) <- (r, c + r)
        s = [s[4 * ((c + r) % 4) + r] for c in range(4) for r in range(4)]
        if rnd != 10:
            t = []
            for c in range(4):
                a0, a1, a2, a3 = s[4 * c : 4 * c + 4]
                t.append(_MUL2[a0] ^ _MUL3[a1] ^ a2 ^ a3)
                t.append(a0 ^ _MUL2[a1] ^ _MUL3[a2] ^ a3)
                t.append(a0 ^ a1 ^ _MUL2[a2] ^ _MUL3[a3])
                t.append(_MUL3[a0] ^ a1 ^ a2 ^ _MUL2[a3])
            s = t
        s = [b ^ k for b, k in zip(s, rks[rnd])]
    return bytes(s)


class FastAES:
    """Same cipher, with per-column lookup tables computed from SBOX/_MUL2/_MUL3
    (used only where 10^6+ blocks are needed).  Cross-checked against the slow
    version by self_test()."""

    _T0 = [(_MUL2[SBOX[x]] << 24) | (SBOX[x] << 16) | (SBOX[x] << 8) | _MUL3[SBOX[x]] for x in range(256)]
    _T1 = [(_MUL3[SBOX[x]] << 24) | (_MUL2[SBOX[x]] << 16) | (SBOX[x] << 8) | SBOX[x] for x in range(256)]
    _T2 = [(SBOX[x] << 24) | (_MUL3[SBOX[x]] << 16) | (_MUL2[SBOX[x]] << 8) | SBOX[x] for x in range(256)]
    _T3 = [(SBOX[x] << 24) | (SBOX[x] << 16) | (_MUL3[SBOX[x]] << 8) | _MUL2[SBOX[x]] for x in range(256)]

    def __init__(self, key: bytes):
        rks = aes128_key_schedule(key)
        self.rk = [[int.from_bytes(bytes(r[4 * c : 4 * c + 4]), 'big') for c in range(4)] for r in rks]

    def encrypt(self, block: bytes) -> bytes:
        T0, T1, T2, T3, rk = self._T0, self._T1, self._T2, self._T3, self.rk
        k = rk[0]
        s0 = int.from_bytes(block[0:4], 'big') ^ k[0]
        s1 = int.from_bytes(block[4:8], 'big') ^ k[1]
        s2 = int.from_bytes(block[8:12], 'big') ^ k[2]
        s3 = int.from_bytes(block[12:16], 'big') ^ k[3]
        for r in range(1, 10):
            k = rk[r]
            t0 = T0[s0 >> 24] ^ T1[(s1 >> 16) & 255] ^ T2[(s2 >> 8) & 255] ^ T3[s3 & 255] ^ k[0]
            t1 = T0[s1 >> 24] ^ T1[(s2 >> 16) & 255] ^ T2[(s3 >> 8) & 255] ^ T3[s0 & 255] ^ k[1]
            t2 = T0[s2 >> 24] ^ T1[(s3 >> 16) & 255] ^ T2[(s0 >> 8) & 255] ^ T3[s1 & 255] ^ k[2]
            t3 = T0[s3 >> 24] ^ T1[(s0 >> 16) & 255] ^ T2[(s1 >> 8) & 255] ^ T3[s2 & 255] ^ k[3]
            s0, s1, s2, s3 = t0, t1, t2, t3
        k = rk[10]
        S = SBOX
        o0 = ((S[s0 >> 24] << 24) | (S[(s1 >> 16) & 255] << 16) | (S[(s2 >> 8) & 255] << 8) | S[s3 & 255]) ^ k[0]
        o1 = ((S[s1 >> 24] << 24) | (S[(s2 >> 16) & 255] << 16) | (S[(s3 >> 8) & 255] << 8) | S[s0 & 255]) ^ k[1]
        o2 = ((S[s2 >> 24] << 24) | (S[(s3 >> 16) & 255] << 16) | (S[(s0 >> 8) & 255] << 8) | S[s1 & 255]) ^ k[2]
        o3 = ((S[s3 >> 24] << 24) | (S[(s0 >> 16) & 255] << 16) | (S[(s1 >> 8) & 255] << 8) | S[s2 & 255]) ^ k[3]
        return ((o0 << 96) | (o1 << 64) | (o2 << 32) | o3).to_bytes(16, 'big')


def aes128(key: bytes, block: bytes) -> bytes:
    return aes128_encrypt_block_slow(key, block)


# ---------------------------------------------------------------------------
# AES-CMAC (RFC 4493)
# ---------------------------------------------------------------------------
def _dbl(b: bytes) -> bytes:
    v = int.from_bytes(b, 'big')
    msb = v >> 127
    v = (v << 1) & ((1 << 128) - 1)
    if msb:
        v ^= 0x87
    return v.to_bytes(16, 'big')


def _xor(a: bytes, b: bytes) -> bytes:
    assert len(a) == len(b)
    return bytes(x ^ y for x, y in zip(a, b))


def cmac_subkeys(key: bytes):
    rks = aes128_key_schedule(key)
    L = aes128_encrypt_block_slow(key, bytes(16), rks)
    k1 = _dbl(L)
    k2 = _dbl(k1)
    return L, k1, k2


def aes_cmac(key: bytes, msg: bytes) -> bytes:
    """RFC 4493 section 2.4, literally."""
    rks = aes128_key_schedule(key)
    L = aes128_encrypt_block_slow(key, bytes(16), rks)
    k1 = _dbl(L)
    k2 = _dbl(k1)
    n = (len(msg) + 15) // 16
    if n == 0:
        n = 1
        flag = False
    else:
        flag = len(msg) % 16 == 0
    last = msg[16 * (n - 1) :]
    if flag:
        m_last = _xor(last, k1)
    else:
        padded = last + b'\x80' + bytes(16 - len(last) - 1)
        m_last = _xor(padded, k2)
    x = bytes(16)
    for i in range(n - 1):
        x = aes128_encrypt_block_slow(key, _xor(x, msg[16 * i : 16 * i + 16]), rks)
    return aes128_encrypt_block_slow(key, _xor(x, m_last), rks)


# ---------------------------------------------------------------------------
# Security Manager toolbox (Core Vol 3 Part H 2.2), little-endian interface
# ---------------------------------------------------------------------------
def _be(x: bytes) -> bytes:
    return x[::-1]


def sm_e(key: bytes, data: bytes) -> bytes:
    return _be(aes128(_be(key), _be(data)))


def sm_ah(k: bytes, r: bytes) -> bytes:
    # r' = padding || r  (padding = 104 zero bits, most significant);  ah = e(k, r') mod 2^24
    assert len(r) == 3
    r_prime = bytes(13) + _be(r)
    out = aes128(_be(k), r_prime)
    return _be(out[-3:])


def sm_c1(k, r, preq, pres, iat, rat, ia, ra) -> bytes:
    # p1 = pres || preq || rat' || iat'      p2 = padding(32 bits) || ia || ra
    assert len(preq) == 7 and len(pres) == 7 and len(ia) == 6 and len(ra) == 6
    p1 = _be(pres) + _be(preq) + bytes([rat & 0xFF]) + bytes([iat & 0xFF])
    p2 = bytes(4) + _be(ia) + _be(ra)
    kb = _be(k)
    return _be(aes128(kb, _xor(aes128(kb, _xor(_be(r), p1)), p2)))


def sm_s1(k, r1, r2) -> bytes:
    # r' = r1' || r2'  (least significant 64 bits of each)
    r_prime = _be(r1)[-8:] + _be(r2)[-8:]
    return _be(aes128(_be(k), r_prime))


def sm_f4(u, v, x, z) -> bytes:
    return _be(aes_cmac(_be(x), _be(u) + _be(v) + _be(z)))


F5_SALT = bytes.fromhex('6C888391AAF5A53860370BDB5A6083BE')
F5_KEYID = bytes.fromhex('62746C65')  # "btle"


def sm_f5(w, n1, n2, a1, a2):
    t = aes_cmac(F5_SALT, _be(w))
    tail = F5_KEYID + _be(n1) + _be(n2) + _be(a1) + _be(a2) + bytes.fromhex('0100')
    mac_key = aes_cmac(t, b'\x00' + tail)
    ltk = aes_cmac(t, b'\x01' + tail)
    return _be(mac_key), _be(ltk)


def sm_f6(w, n1, n2, r, io_cap, a1, a2) -> bytes:
    return _be(aes_cmac(_be(w), _be(n1) + _be(n2) + _be(r) + _be(io_cap) + _be(a1) + _be(a2)))


def sm_g2(u, v, x, y) -> int:
    return int.from_bytes(aes_cmac(_be(x), _be(u) + _be(v) + _be(y)), 'big') % (1 << 32)


def sm_h6(w, key_id) -> bytes:
    # keyID is passed most-significant-octet first by bumble's callers (e.g. b'lebr')
    return _be(aes_cmac(_be(w), key_id))


def sm_h7(salt, w) -> bytes:
    # SALT is passed most-significant-octet first by bumble's callers
    return _be(aes_cmac(salt, _be(w)))


# ---------------------------------------------------------------------------
# Elliptic curves y^2 = x^3 + a x + b over F_p, affine coordinates.
# A point is None (infinity) or (x, y).
# ---------------------------------------------------------------------------
P256_P = 0xFFFFFFFF00000001000000000000000000000000FFFFFFFFFFFFFFFFFFFFFFFF
P256_A = P256_P - 3
P256_B = 0x5AC635D8AA3A93E7B3EBBD55769886BC651D06B0CC53B0F63BCE3C3E27D2604B
P256_N = 0xFFFFFFFF00000000FFFFFFFFFFFFFFFFBCE6FAADA7179E84F3B9CAC2FC632551
P256_GX = 0x6B17D1F2E12C4247F8BCE6E563A440F277037D812DEB33A0F4A13945D898C296
P256_GY = 0x4FE342E2FE1A7F9B8EE7EB4A7C0F9E162BCE33576B315ECECBB6406837BF51F5
P256_G = (P256_GX, P256_GY)


def on_curve(pt, a, b, p) -> bool:
    """True iff pt is an affine point of the curve with both coordinates in [0, p-1]."""
    x, y = pt
    if not (0 <= x < p and 0 <= y < p):
        return False
    return (y * y - (x * x * x + a * x + b)) % p == 0


def ec_add(P, Q, a, p):
    if P is None:
        return Q
    if Q is None:
        return P
    x1, y1 = P
    x2, y2 = Q
    if x1 == x2:
        if (y1 + y2) % p == 0:
            return None
        lam = (3 * x1 * x1 + a) * pow(2 * y1, -1, p) % p
    else:
        lam = (y2 - y1) * pow(x2 - x1, -1, p) % p
    x3 = (lam * lam - x1 - x2) % p
    y3 = (lam * (x1 - x3) - y1) % p
    return (x3, y3)


def ec_mul(k: int, P, a, p):
    """Left-to-right double-and-add (the code under test goes right-to-left in Jacobian)."""
    assert k >= 0
    R = None
    for bit in bin(k)[2:] if k else '':
        R = ec_add(R, R, a, p)
        if bit == '1':
            R = ec_add(R, P, a, p)
    return R


def p256_on_curve(pt) -> bool:
    return on_curve(pt, P256_A, P256_B, P256_P)


def p256_mul(k, P=P256_G):
    return ec_mul(k, P, P256_A, P256_P)


def p256_lift_x(x: int):
    """Returns the on-curve (x, y) with the smaller y, or None."""
    p = P256_P
    rhs = (x * x * x + P256_A * x + P256_B) % p
    y = pow(rhs, (p + 1) // 4, p)  # p = 3 mod 4
    if y * y % p != rhs:
        return None
    return (x, min(y, p - y))


# -- small curves -------------------------------------------------------------
def is_prime(n: int) -> bool:
    if n < 2:
        return False
    i = 2
    while i * i <= n:
        if n % i == 0:
            return False
        i += 1
    return True


def curve_points(p: int, a: int, b: int):
    """All affine points by brute force over F_p^2."""
    sq = {}
    for y in range(p):
        sq.setdefault(y * y % p, []).append(y)
    pts = []
    for x in range(p):
        for y in sq.get((x * x * x + a * x + b) % p, []):
            pts.append((x, y))
    return pts


def small_curves(p: int, want_prime: bool = True):
    """All (b, order, points) with a = p-3, non-singular, whose group order (incl. infinity)
    is prime (want_prime) or even (not want_prime), in increasing b."""
    a = p - 3
    out = []
    for b in range(1, p):
        if (4 * a * a * a + 27 * b * b) % p == 0:
            continue
        pts = curve_points(p, a, b)
        order = len(pts) + 1
        if want_prime and is_prime(order):
            out.append((b, order, pts))
        elif not want_prime and order % 2 == 0:
            out.append((b, order, pts))
    return out


def multiples_table(P, count: int, a: int, p: int):
    """[0*P, 1*P, ..., count*P] by repeated affine addition (no doubling-and-add)."""
    tab = [None]
    cur = None
    for _ in range(count):
        cur = ec_add(cur, P, a, p)
        tab.append(cur)
    return tab


# ---------------------------------------------------------------------------
def self_test():
    """Internal consistency of the reference itself (no bumble involved)."""
    k = bytes.fromhex('000102030405060708090a0b0c0d0e0f')
    pt = bytes.fromhex('00112233445566778899aabbccddeeff')
    assert SBOX[0x00] == 0x63 and SBOX[0x53] == 0xED and SBOX[0xFF] == 0x16
    assert len(set(SBOX)) == 256
    slow = aes128_encrypt_block_slow(k, pt)
    assert FastAES(k).encrypt(pt) == slow
    for i in range(64):
        kk = bytes((i * 7 + j * 13) & 0xFF for j in range(16))
        bb = bytes((i * 31 + j * 5 + 1) & 0xFF for j in range(16))
        assert FastAES(kk).encrypt(bb) == aes128_encrypt_block_slow(kk, bb)
    assert p256_on_curve(P256_G)
    assert p256_mul(P256_N) is None
    assert p256_mul(P256_N - 1) == (P256_GX, P256_P - P256_GY)
    assert is_prime(23) and not is_prime(21)
