"""C12 notification / indication routing rig.

Three real devices: device 1 is the GATT server, devices 0 and 2 are GATT clients.
Bearers:  b0 = ATT fixed channel of the connection from device 0
          b1 = an EATT bearer on that same connection (Client.connect_eatt)
          b2 = ATT fixed channel of the connection from device 2
Database: one service, characteristics X and Y, both NOTIFY|INDICATE|READ.

Observation: what the server transmits per bearer (tap on the server Device /
server EATT channel), what each client's subscriber function and 'update' listener
receive, and the confirmations the clients send (tap on the client Devices / client
EATT channel).  Confirmations can be held back by a gate to observe that an
indication stays pending.
"""
from __future__ import annotations

import struct

from . import c12_model as M
from .c12_world import GattWorld

NI = M.P_NOTIFY | M.P_INDICATE | M.P_READ
SPEC = [{'u': [16, 1], 'p': 1, 'inc': [], 'reg': 1, 'ch': [
    {'u': [16, 2], 'pr': NI, 'vl': 300, 'dyn': 0, 'ds': []},
    {'u': [128, 3], 'pr': NI, 'vl': 7, 'dyn': 0, 'ds': []},
]}]
CELLS = [(0, 'X'), (0, 'Y'), (1, 'X'), (1, 'Y'), (2, 'X'), (2, 'Y')]
BASE_STATES = ['none', 'N', 'I']
EXT_STATES = ['Nu', 'Iu', 'NI', 'IN', 'both']
# server-side CCCD bits and client-side registered kinds that a state leaves behind
STATE_BITS = {'none': 0, 'N': 1, 'I': 2, 'Nu': 0, 'Iu': 0, 'NI': 2, 'IN': 1, 'both': 3}
STATE_CLIENT = {'none': set(), 'N': {'N'}, 'I': {'I'}, 'Nu': set(), 'Iu': set(), 'NI': {'N', 'I'}, 'IN': {'N', 'I'}, 'both': set()}
APIS = ['notify_subscribers', 'indicate_subscribers', 'notify_subscriber', 'indicate_subscriber']
BEARER_KIND = ['att', 'eatt', 'att']
CONN_OF = [0, 0, 2]  # client device of each bearer


def all_ops():
    """(api, target bearer or None, force)."""
    out = []
    for force in (False, True):
        for api in APIS[:2]:
            out.append((api, None, force))
        for api in APIS[2:]:
            for t in (0, 1, 2):
                out.append((api, t, force))
    return out


class Bearer:
    def __init__(self, idx):
        self.idx = idx
        self.kind = BEARER_KIND[idx]
        self.client = None
        self.srv = None  # server-side bearer object (Connection or LeCreditBasedChannel)
        self.mtu = 23
        self.proxy = {}
        self.cccd = {}
        self.fn = {}
        self.wire = []  # (opcode, handle, value) sent by the server on this bearer
        self.confirmations = 0


class NotifyRig:
    def __init__(self, mtus=(50, 64, None), seed=0):
        self.mtus = mtus
        self.g = GattWorld(3, 1, seed=seed, eatt=True)
        self.bearers = [Bearer(i) for i in range(3)]
        self.calls = []  # (bearer, char, 'fn'|'ev', value)
        self.hold = set()  # bearers whose confirmations are currently held back
        self.held = []  # (bearer index, release function)
        self.fail_send = set()  # bearers on which the server's transmission of a notification/indication raises

    def __enter__(self):
        self.g.__enter__()
        try:
            self._setup()
        except BaseException:
            self.g.__exit__(None, None, None)
            raise
        return self

    def __exit__(self, *a):
        return self.g.__exit__(*a)

    def _setup(self):
        g = self.g
        w = g.world
        self.model = g.set_database(SPEC)
        svc = self.model.services[0]
        self.handle = {'X': svc['chars'][0]['handle'], 'Y': svc['chars'][1]['handle']}
        self.cccd_handle = {'X': svc['chars'][0]['descs'][-1]['handle'], 'Y': svc['chars'][1]['descs'][-1]['handle']}
        self.attr = {'X': g.objs[svc['chars'][0]['value']['i']], 'Y': g.objs[svc['chars'][1]['value']['i']]}
        b0, b1, b2 = self.bearers
        c0, p0 = g.connect(0)
        c2, p2 = g.connect(2)
        self.conns = {0: (c0, p0), 2: (c2, p2)}
        b0.client, b0.srv = c0.gatt_client, p0
        b2.client, b2.srv = c2.gatt_client, p2
        m0, e, m2 = self.mtus
        if m0 is not None:
            w.run(b0.client.request_mtu(m0))
        if m2 is not None:
            w.run(b2.client.request_mtu(m2))
        b1.client, b1.srv = g.open_eatt(c0, p0, e)
        # ATT_MTU of a bearer: Exchange MTU = min of the two values (Part F 3.4.2); enhanced bearer = min of the
        # two L2CAP MTUs (Part F 3.2.8); the server side registers EATT with bumble's default MTU 2048
        b0.mtu = 23 if m0 is None else max(23, min(m0, 517))
        b2.mtu = 23 if m2 is None else max(23, min(m2, 517))
        b1.mtu = min(e, 2048)
        self.mtu_seen = [b0.srv.att_mtu, b1.srv.att_mtu, b2.srv.att_mtu]

        # taps: server -> client PDUs
        by_handle = {p0.handle: b0, p2.handle: b2}

        def srv_tap(h, pdu):
            if pdu and pdu[0] in (M.OP_NOTIFICATION, M.OP_INDICATION, 0x23) and h in by_handle:
                if by_handle[h].idx in self.fail_send:
                    raise InjectedSendFailure(f'send on bearer {by_handle[h].idx} fails')
                by_handle[h].wire.append((pdu[0], struct.unpack_from('<H', pdu, 1)[0] if len(pdu) >= 3 else None, pdu[3:]))
            return True

        g.tap_device(g.server_dev, srv_tap)

        def srv_ch_tap(pdu):
            if pdu and pdu[0] in (M.OP_NOTIFICATION, M.OP_INDICATION, 0x23):
                if 1 in self.fail_send:
                    raise InjectedSendFailure('send on bearer 1 fails')
                b1.wire.append((pdu[0], struct.unpack_from('<H', pdu, 1)[0] if len(pdu) >= 3 else None, pdu[3:]))
            return True

        g.tap_channel(b1.srv, srv_ch_tap)

        # taps: confirmations from the clients (gated)
        def mk_dev_tap(bearer, dev):
            def tap(h, pdu):
                if pdu and pdu[0] == M.OP_CONFIRMATION:
                    bearer.confirmations += 1
                    if bearer.idx in self.hold:
                        self.held.append((bearer.idx, lambda: real(h, 0x0004, pdu)))
                        return False
                return True

            real = g.tap_device(dev, tap)

        mk_dev_tap(b0, w.devices[0])
        mk_dev_tap(b2, w.devices[2])

        def cl_ch_tap(pdu):
            if pdu and pdu[0] == M.OP_CONFIRMATION:
                b1.confirmations += 1
                if 1 in self.hold:
                    self.held.append((1, lambda: real_write(pdu)))
                    return False
            return True

        real_write = g.tap_channel(b1.client.bearer, cl_ch_tap)

        # every client discovers the service and its two characteristics
        async def disc(b):
            services = await b.client.discover_services()
            chars = await services[0].discover_characteristics()
            for c in chars:
                for name, h in self.handle.items():
                    if c.handle == h:
                        b.proxy[name] = c

        for b in self.bearers:
            w.run(disc(b))
            if set(b.proxy) != {'X', 'Y'}:
                raise RuntimeError(f'bearer {b.idx}: characteristic discovery failed in the notify rig')
            for name in ('X', 'Y'):
                b.fn[name] = self._mk_fn(b.idx, name)
                b.proxy[name].on('update', self._mk_ev(b.idx, name))

    def _mk_fn(self, bi, name):
        def subscriber(value):
            self.calls.append((bi, name, 'fn', bytes(value)))

        return subscriber

    def _mk_ev(self, bi, name):
        def on_update(value):
            self.calls.append((bi, name, 'ev', bytes(value)))

        return on_update

    # -- subscription states ------------------------------------------------------
    def apply_state(self, bi, name, state):
        b = self.bearers[bi]
        p, fn = b.proxy[name], b.fn[name]

        async def go():
            if state in ('N', 'Nu', 'NI'):
                await p.subscribe(fn, prefer_notify=True)
            if state in ('I', 'Iu', 'IN'):
                await p.subscribe(fn, prefer_notify=False)
            if state in ('Nu', 'Iu'):
                await p.unsubscribe(fn)
            if state == 'NI':
                await p.subscribe(fn, prefer_notify=False)
            if state == 'IN':
                await p.subscribe(fn, prefer_notify=True)
            if state == 'both':
                await b.client.write_value(self.cccd_handle[name], b'\x03\x00', with_response=True)

        if state != 'none':
            self.g.world.run(go())

    def server_bits(self, bi, name):
        """What the client reads back from the CCCD (through the real client)."""
        b = self.bearers[bi]
        return bytes(self.g.world.run(b.client.read_value(self.cccd_handle[name])))

    # -- one operation --------------------------------------------------------------
    def do_op(self, api, target, force, value, char='X'):
        g = self.g
        for b in self.bearers:
            b.wire = []
            b.confirmations = 0
        self.calls = []
        self.held = []
        self.hold = {0, 1, 2}
        attr = self.attr[char]
        srv = g.server
        if api == 'notify_subscribers':
            coro = srv.notify_subscribers(attr, value, force)
        elif api == 'indicate_subscribers':
            coro = srv.indicate_subscribers(attr, value, force)
        elif api == 'notify_subscriber':
            coro = srv.notify_subscriber(self.bearers[target].srv, attr, value, force)
        else:
            coro = srv.indicate_subscriber(self.bearers[target].srv, attr, value, force)
        task = g.loop.create_task(coro)
        g.loop.run_quiescent()
        res = {
            'wire': [list(b.wire) for b in self.bearers],
            'calls': list(self.calls),
            'done_before_confirmation': task.done(),
            'confirmations_held': len(self.held),
        }
        self.hold = set()
        held, self.held = self.held, []
        for _bi, h in held:
            h()
        g.loop.run_quiescent()
        res['done_after_confirmation'] = task.done()
        res['confirmations'] = [b.confirmations for b in self.bearers]
        res['wire_after'] = [list(b.wire) for b in self.bearers]
        res['calls_after'] = list(self.calls)
        res['exception'] = None
        if task.done():
            if not task.cancelled() and task.exception() is not None:
                res['exception'] = repr(task.exception())
        else:
            task.cancel()
            g.loop.run_quiescent()
        res['loop_exceptions'] = g.loop.collect_exceptions()
        return res


    def _start(self, api, force, value, char='X'):
        attr = self.attr[char]
        srv = self.g.server
        coro = srv.notify_subscribers(attr, value, force) if api == 'notify_subscribers' else srv.indicate_subscribers(attr, value, force)
        return self.g.loop.create_task(coro)

    def _snapshot(self):
        return {'wire': [list(b.wire) for b in self.bearers], 'calls': list(self.calls), 'confirmations': [b.confirmations for b in self.bearers]}

    def do_faulty_bearer(self, api, force, value, faulty, mode):
        """Fan-out call (`*_subscribers`) while ONE bearer misbehaves:
          mode 'late'  : its Handle Value Confirmation is held back, the others are observed, then it is released
          mode 'never' : its confirmation is lost; virtual time passes beyond the GATT timeout (30 s)
          mode 'send_raises' : the server's transmission on that bearer raises (injected at the tap)
        -> observations 'during' (fault outstanding, loop quiescent) and 'final'."""
        g = self.g
        for b in self.bearers:
            b.wire = []
            b.confirmations = 0
        self.calls = []
        self.held = []
        self.hold = {faulty} if mode in ('late', 'never') else set()
        self.fail_send = {faulty} if mode == 'send_raises' else set()
        task = self._start(api, force, value)
        g.loop.run_quiescent()
        res = {'during': self._snapshot(), 'done_during': task.done()}
        if mode == 'late':
            self.hold = set()
            held, self.held = self.held, []
            for _bi, h in held:
                h()
            g.loop.run_quiescent()
        elif mode == 'never':
            g.loop.advance(31.0)
            g.loop.run_quiescent()
            self.hold = set()
            self.held = []  # lost for good
        self.fail_send = set()
        self.hold = set()
        res['final'] = self._snapshot()
        res['done_final'] = task.done()
        if not task.done():
            task.cancel()
            g.loop.run_quiescent()
        elif not task.cancelled():
            task.exception()  # retrieved: whether the call reports the faulty bearer's failure is not checked
        g.loop.collect_exceptions(gc_collect=False)
        return res


class InjectedSendFailure(Exception):
    pass


# ---------------------------------------------------------------------------
# reference: what must happen
# ---------------------------------------------------------------------------
def expected_wire(api, target, force, value, states, mtus, handle, stored_value):
    """-> per bearer: list of (opcode, handle, value) that must be sent, or None when the
    statement does not fix it (forced broadcast to bearers that are not subscribed)."""
    kind_bit = 1 if api.startswith('notify') else 2
    opcode = M.OP_NOTIFICATION if kind_bit == 1 else M.OP_INDICATION
    data = stored_value if value is None else value
    out = []
    for bi in range(3):
        pdu = (opcode, handle, data[: mtus[bi] - 3])
        bits = STATE_BITS[states[(bi, 'X')]]
        subscribed = bool(bits & kind_bit)
        if api.endswith('subscribers'):
            if force:
                out.append([pdu] if subscribed else None)
            else:
                out.append([pdu] if subscribed else [])
        else:
            if force:
                out.append([pdu] if bi == target else [])
            else:
                if target == 1:
                    in_scope = bi == 1
                else:
                    in_scope = CONN_OF[bi] == CONN_OF[target]  # a Connection stands for all its bearers
                out.append([pdu] if (in_scope and subscribed) else [])
    return out
