"""C17 victim beds: a full real victim stack (Controller/Host/Device + the protocol under attack),
an attacker that is a real stack only for bring-up and a raw injector / raw capturer afterwards,
the per-injection guards (step budget, CPU-time alarm, RecursionError monitor) and the reference
request ("probe") of every protocol with its independently computed expected answer.

Seams
  attacker -> victim
    L2CAP payload on a CID .... attacker.host.send_l2cap_pdu(handle, cid, bytes)   (real HCI/ACL/link path)
    raw L2CAP frame ........... link.send_acl_data(attacker_controller, victim_address, transport, bytes)
    raw HCI packet ............ loop.call_soon(victim.host.on_packet, bytes)       (hostile controller)
  victim -> attacker
    every L2CAP PDU that reaches the attacker host ('l2cap_pdu' event of the attacker Host; the
    attacker's own upper stack is unplugged after bring-up so it neither answers nor raises).
"""
from __future__ import annotations

import asyncio
import os
import signal
import struct
import sys

from ..vloop import StepBudgetExceeded
from . import c17_wire as W
from .devices import World

STEP_BUDGET = 10_000
TOOL_ID = 3  # a free sys.monitoring tool id (0-2 and 5 are reserved for debugger, coverage, profiler, optimizer)
BUMBLE_DIR = None


def _bumble_dir():
    global BUMBLE_DIR
    if BUMBLE_DIR is None:
        import bumble

        BUMBLE_DIR = os.path.dirname(os.path.abspath(bumble.__file__)) + os.sep
    return BUMBLE_DIR


# ---------------------------------------------------------------------------
# guards
# ---------------------------------------------------------------------------
class BusyLoop(KeyboardInterrupt):
    """Raised by the CPU-time alarm inside whatever code is spinning.  Derives from
    KeyboardInterrupt so that neither bumble's `except Exception` nor asyncio's
    `except BaseException` in Handle._run / Task.__step swallow it."""


def _short(path: str) -> str:
    b = _bumble_dir()
    return path[len(b) :] if path.startswith(b) else os.path.basename(path)


class Guard:
    """CPU-time guard (ITIMER_VIRTUAL: user CPU time of this process, so a descheduled worker on a
    loaded machine cannot trip it; a busy loop burns exactly this clock) + RecursionError monitor."""

    def __init__(self):
        self.installed = False
        self.fired = None  # list of 'file:func' innermost first (bumble frames only)
        self.rec = None  # 'file:func' of the innermost bumble frame that saw a RecursionError
        self.raised = []  # (type name, 'file:func') of exceptions raised in bumble frames (when tracking)
        self.track = False
        self._last_exc = None
        self._samples = []

    def install(self):
        if self.installed:
            return
        self.installed = True
        signal.signal(signal.SIGVTALRM, self._on_alarm)
        mon = sys.monitoring
        try:
            mon.use_tool_id(TOOL_ID, "c17")
        except ValueError:
            pass
        mon.register_callback(TOOL_ID, mon.events.RAISE, self._on_raise)
        mon.set_events(TOOL_ID, mon.events.RAISE)

    SAMPLES = 4
    SAMPLE_GAP = 0.03

    def _on_alarm(self, signum, frame):
        """The guard expired.  Take SAMPLES stack samples SAMPLE_GAP CPU-seconds apart (holding the frame
        objects so that identities cannot be reused), then raise.  The spinning function is the innermost
        frame *object* common to all samples: its callees are re-created on every iteration, it is not."""
        chain = []
        f = frame
        while f is not None:
            chain.append(f)
            f = f.f_back
        chain.reverse()  # outermost first
        self._samples.append(chain)
        if len(self._samples) < self.SAMPLES:
            signal.setitimer(signal.ITIMER_VIRTUAL, self.SAMPLE_GAP)
            return
        common = self._samples[0]
        for other in self._samples[1:]:
            n = 0
            while n < len(common) and n < len(other) and common[n] is other[n]:
                n += 1
            common = common[:n]
        stack = [f'{_short(f.f_code.co_filename)}:{f.f_code.co_name}' for f in reversed(common) if f.f_code.co_filename.startswith(_bumble_dir())]
        self._samples = []
        self.fired = stack or ['<outside bumble>']
        raise BusyLoop()

    def _on_raise(self, code, offset, exc):
        if exc is self._last_exc:
            return
        fn = code.co_filename
        if not fn.startswith(_bumble_dir()):
            if type(exc) is RecursionError and self.rec is None:
                # raised inside a library frame: attribute to the nearest bumble caller
                f = sys._getframe(1)
                while f is not None:
                    if f.f_code.co_filename.startswith(_bumble_dir()):
                        self.rec = f'{_short(f.f_code.co_filename)}:{f.f_code.co_name}'
                        self._last_exc = exc
                        break
                    f = f.f_back
            return
        self._last_exc = exc
        site = f'{_short(fn)}:{code.co_name}'
        if type(exc) is RecursionError and self.rec is None:
            self.rec = site
        if self.track and len(self.raised) < 64:
            self.raised.append((type(exc).__name__, site))

    def arm(self, seconds: float):
        self.fired = None
        self._samples = []
        signal.setitimer(signal.ITIMER_VIRTUAL, seconds)

    def disarm(self):
        signal.setitimer(signal.ITIMER_VIRTUAL, 0)
        self._samples = []


GUARD = Guard()


def exc_site(exc: BaseException) -> tuple[str, str]:
    """(type name, 'file:func' of the innermost bumble frame of the traceback)."""
    site = '?'
    tb = exc.__traceback__
    while tb is not None:
        fn = tb.tb_frame.f_code.co_filename
        if fn.startswith(_bumble_dir()):
            site = f'{_short(fn)}:{tb.tb_frame.f_code.co_name}'
        tb = tb.tb_next
    return type(exc).__name__, site


class Outcome:
    __slots__ = ('steps', 'excs', 'raised', 'busy', 'rec', 'budget', 'replies', 'pre_diag')

    def __init__(self):
        self.steps = 0
        self.excs = []  # escaped to the loop exception handler: (type, site)
        self.raised = []  # raised anywhere in bumble frames (possibly swallowed): (type, site)
        self.busy = None
        self.rec = None
        self.budget = False
        self.replies = []  # [(cid, bytes)] captured at the attacker during this step
        self.pre_diag = None

    def bad(self):
        if self.busy:
            return 'busy_loop'
        if self.rec:
            return 'recursion'
        if self.budget:
            return 'step_budget'
        return None


# ---------------------------------------------------------------------------
# base bed
# ---------------------------------------------------------------------------
VICTIM_NAME = 'C17-victim'
_MUTED = False


def _mute_colors():
    """bumble builds its debug f-strings eagerly; a third of a frame's cost is ANSI colouring of text that
    is never emitted (logging is disabled by ./check).  `color()` is a pure string wrapper, so every
    module-level reference to it is replaced by the identity.  Nothing else of the log path is touched:
    an exception raised while *formatting* a hostile packet for a log line stays observable."""
    global _MUTED
    if _MUTED:
        return
    _MUTED = True
    import bumble.colors as bc

    real = bc.color

    def plain(s, *a, **k):
        return s

    for name, mod in list(sys.modules.items()):
        if name.startswith('bumble') and mod is not None and getattr(mod, 'color', None) is real:
            mod.color = plain


class Bed:
    name = '?'
    classic = False
    guard_seconds = 5.0

    def __init__(self, seed: int = 0):
        GUARD.install()
        _mute_colors()
        self.world = World(
            2, seed=seed, classic=self.classic, le=not self.classic, device_kwargs={1: {'name': VICTIM_NAME}, 0: {'name': 'C17-attacker'}}
        )
        self.world.__enter__()
        self.closed = False
        try:
            w = self.world
            self.loop = w.loop
            self.att_dev, self.vic = w.devices
            self.excs = []
            self.cap = []
            self.dyn_cid = None  # victim-side CID of the protocol's dynamic channel
            self.dyn_rx_cid = None  # attacker-side CID (where the victim's replies arrive)
            self.tid = 0
            self.pre_power_on()
            w.power_on()
            if self.classic:
                self.a_conn, self.v_conn = w.connect_classic()
            else:
                self.a_conn, self.v_conn = w.connect_le()
            self.handle = self.a_conn.handle
            self.v_handle = self.v_conn.handle
            self.bring_up()
            w.settle()
            self.detach()
            self.after_detach()
            w.settle()
            self.loop.collect_exceptions()
            self.loop.set_exception_handler(self._on_exception)
            self.cap.clear()
        except BaseException:
            self.close()
            raise

    # -- hooks --------------------------------------------------------------
    def pre_power_on(self):
        pass

    def bring_up(self):
        pass

    def after_detach(self):
        pass

    def on_capture(self, cid: int, pdu: bytes):
        """Raw responder hook (attacker side)."""

    # -- plumbing -------------------------------------------------------------
    def _on_exception(self, loop, context):
        exc = context.get('exception')
        if exc is not None:
            self.excs.append(exc_site(exc))
        else:
            self.excs.append(('message', str(context.get('message'))[:60]))

    def detach(self):
        host = self.att_dev.host
        host.remove_all_listeners('l2cap_pdu')
        host.on('l2cap_pdu', self._capture)

    def _capture(self, handle, cid, pdu):
        pdu = bytes(pdu)
        self.cap.append((cid, pdu))
        self.on_capture(cid, pdu)

    def open_dyn(self, psm: int):
        from bumble import l2cap

        async def go():
            return await self.att_dev.l2cap_channel_manager.create_classic_channel(self.a_conn, l2cap.ClassicChannelSpec(psm=psm))

        ch = self.world.run(go())
        self.dyn_cid = ch.destination_cid
        self.dyn_rx_cid = ch.source_cid
        return ch

    def cid_of(self, chan: str) -> int:
        if chan == 'att':
            return 4
        if chan == 'smp':
            return 6
        if chan == 'lesig':
            return 5
        if chan == 'sig':
            return 1
        if chan == 'dyn':
            return self.dyn_cid
        if chan.startswith('cid:'):
            return int(chan[4:], 16)
        raise KeyError(chan)

    def send(self, chan: str, data: bytes):
        if chan == 'hci':
            self.loop.call_soon(self.vic.host.on_packet, bytes(data))
        elif chan == 'acl':
            from bumble.core import PhysicalTransport

            tr = PhysicalTransport.BR_EDR if self.classic else PhysicalTransport.LE
            self.world.link.send_acl_data(self.world.controllers[0], self.a_conn.peer_address, tr, bytes(data))
        elif chan == 'at':
            self.send_at(data)
        else:
            self.att_dev.host.send_l2cap_pdu(self.handle, self.cid_of(chan), bytes(data))

    def send_at(self, text: bytes):
        raise NotImplementedError

    def settle(self, out: Outcome | None = None, timers: float | None = None):
        """Run the loop to quiescence under the guards."""
        out = out or Outcome()
        g = GUARD
        g.rec = None
        g.raised = []
        g.track = True
        g._last_exc = None
        n0 = self.loop.steps
        g.arm(self.guard_seconds)
        try:
            if timers:
                self.loop.advance(timers, max_steps=STEP_BUDGET)
            else:
                self.loop.run_quiescent(max_steps=STEP_BUDGET)
        except StepBudgetExceeded:
            out.budget = True
        except BusyLoop:
            out.busy = g.fired or ['?']
        finally:
            g.disarm()
            g.track = False
        out.steps += self.loop.steps - n0
        out.rec = out.rec or g.rec
        out.raised += g.raised
        out.excs += self.excs
        self.excs = []
        out.replies += self.cap
        self.cap = []
        return out

    def step(self, chan: str, data) -> Outcome:
        """Inject one mutant (bytes, or a tuple of frames injected in order) and settle."""
        out = Outcome()
        frames = data if isinstance(data, (tuple, list)) else (data,)
        for f in frames:
            try:
                GUARD.track = True
                GUARD.arm(self.guard_seconds)
                try:
                    self.send(chan, f)
                finally:
                    GUARD.disarm()
            except BusyLoop:
                out.busy = GUARD.fired or ['?']
                return out
            self.settle(out)
            if out.bad():
                break
        return out

    def alive(self) -> bool:
        return (
            self.v_handle in self.vic.connections
            and self.vic.connections[self.v_handle] is not None
            and self.handle in self.att_dev.connections
            and self.v_handle in self.vic.host.connections
        )

    def is_valid_disconnect(self, chan: str, data) -> bool:
        return False

    def diagnose(self, out, pout) -> str | None:
        """Descriptive only (used to group failures by root cause in the signature, never for a verdict):
        a short name of a known-bad state of the victim read from its public attributes."""
        return None

    def resync(self, chan: str, data) -> bool:
        """Hook run after a frame and before the reference request (see LeCocBed).  False = do not probe."""
        return True

    def merges_with_next(self, chan: str, data) -> bool:
        """True when the channel is a byte stream and `data` ends inside a line, so that the bytes of the
        next request legitimately continue that line."""
        return False

    def classify(self, chan: str, data) -> str | None:
        """Coarse structural class of a frame by an independent decoder (signature grouping of failures
        during which nothing was raised)."""
        return None

    # -- probe ------------------------------------------------------------------
    def probe(self) -> str | None:
        """Send the protocol's reference request; None if answered correctly, else a short reason."""
        raise NotImplementedError

    def probe_guarded(self):
        """-> (reason | None, Outcome of the probe's processing)."""
        self._pout = Outcome()
        try:
            r = self.probe()
        except BusyLoop:
            self._pout.busy = GUARD.fired or ['?']
            r = 'busy'
        return r, self._pout

    def psettle(self, timers=None):
        self.settle(self._pout, timers)
        reps, self._pout.replies = self._pout.replies, []
        return reps

    def next_tid(self):
        self.tid = (self.tid + 1) & 0xFF
        return self.tid

    def close(self):
        if self.closed:
            return
        self.closed = True
        try:
            self.world.__exit__(None, None, None)
        except BaseException:
            pass


def expect_in(replies, cid, expected: bytes | tuple) -> str | None:
    got = [p for c, p in replies if c == cid]
    exp = expected if isinstance(expected, tuple) else (expected,)
    if not got:
        return 'no_reply'
    if any(p in exp for p in got):
        return None
    return 'wrong_reply'


# ---------------------------------------------------------------------------
# LE beds
# ---------------------------------------------------------------------------
class AttServerBed(Bed):
    name = 'att_server'

    def probe(self):
        # Find Information Request 0x0001-0x0001 -> format 1, handle 1, type 0x2800 (GAP primary service).
        # Not a Read Request: on this tree a Write Request to ANY attribute is accepted ('TODO: check
        # permissions' in on_att_write_request, C11's subject), so no attribute *value* is a fixed reference;
        # attribute types cannot be changed over the air.
        self.send('att', b'\x04\x01\x00\x01\x00')
        return expect_in(self.psettle(), 4, b'\x05\x01\x01\x00\x00\x28')


class AttClientBed(Bed):
    """Victim acts as a GATT client of the attacker; mutants are injected while it is idle
    (`pending=False`) or while one of its requests is outstanding (`pending=True`)."""

    name = 'att_client'
    VALUE = b'attacker-value'
    pending = False

    def after_detach(self):
        from bumble.device import Peer

        self.peer = Peer(self.v_conn)
        self.auto = True
        self.held = None

    def on_capture(self, cid, pdu):
        if cid == 4 and pdu[:1] == b'\x0a' and len(pdu) == 3:
            if self.auto:
                self.att_dev.host.send_l2cap_pdu(self.handle, 4, b'\x0b' + self.VALUE)
            else:
                self.held = pdu
        elif cid == 4 and pdu[:1] == b'\x02' and len(pdu) == 3:
            self.att_dev.host.send_l2cap_pdu(self.handle, 4, b'\x03\x17\x00')

    def step(self, chan, data):
        if not self.pending:
            return super().step(chan, data)
        # a request of the victim is outstanding while the mutant arrives; it is then answered properly
        self.auto = False
        self.held = None
        task = self.loop.create_task(self.peer.read_value(5))
        out = Outcome()
        self.settle(out)
        o2 = super().step(chan, data)
        out.steps += o2.steps
        out.excs += o2.excs
        out.raised += o2.raised
        out.busy, out.rec, out.budget = o2.busy, o2.rec, o2.budget
        out.replies += o2.replies
        if out.bad():
            return out
        self.auto = True
        if not task.done() and self.held is not None:
            self.att_dev.host.send_l2cap_pdu(self.handle, 4, b'\x0b' + self.VALUE)
            self.settle(out)
        if not task.done():
            task.cancel()
            self.settle(out)
        if not task.cancelled():
            task.exception()  # retrieve: the outcome of *this* request is not judged
        return out

    def probe(self):
        self.auto = True
        task = self.loop.create_task(self.peer.read_value(3))
        reps = self.psettle()
        if not task.done():
            task.cancel()
            self.psettle()
            if not any(c == 4 and p == b'\x0a\x03\x00' for c, p in reps):
                return 'request_not_sent'
            return 'no_completion'
        if task.cancelled() or task.exception() is not None:
            return 'request_failed'
        return None if task.result() == self.VALUE else 'wrong_reply'


class AttClientPendingBed(AttClientBed):
    name = 'att_client_pending'
    pending = True


class SmpBed(Bed):
    name = 'smp'

    def probe(self):
        self.send('smp', W.h('01 03 00 01 10 07 07'))
        got = [p for c, p in self.psettle() if c == 6]
        if not got:
            return 'no_reply'
        # Pairing Response (7 octets) or Pairing Failed (2 octets)
        if any((p[:1] == b'\x02' and len(p) == 7) or (p[:1] == b'\x05' and len(p) == 2) for p in got):
            return None
        return 'wrong_reply'


class LeSigBed(Bed):
    name = 'le_sig'
    sig = 'lesig'
    sig_cid = 5

    def probe(self):
        i = (self.next_tid() % 250) + 1
        self.send(self.sig, bytes([0x08, i, 2, 0, 0xAA, 0xBB]))
        exp = (bytes([0x09, i, 2, 0, 0xAA, 0xBB]),)
        if not self.classic:
            # Echo is not defined on the LE signalling channel: Command Reject (not understood) is correct too
            exp += (bytes([0x01, i, 2, 0, 0, 0]),)
        return expect_in(self.psettle(), self.sig_cid, exp)


class ClSigBed(LeSigBed):
    name = 'cl_sig'
    classic = True
    sig = 'sig'
    sig_cid = 1

    def bring_up(self):
        self.open_dyn(1)  # an open SDP channel: CID 0x0040 exists on both sides

    def is_valid_disconnect(self, chan, data):
        return False  # the probe does not need the dynamic channel

    # -- channel 'cfgopt': a peer that opens a channel and first asks for a configuration option the victim does not
    # implement (data = the raw option), then - told so - asks again with the MTU option alone.  The attacker answers the
    # victim's own Configure Request the way any peer does.  The corrected request must be answered with success.
    def send(self, chan, data):
        if chan != 'cfgopt':
            return super().send(chan, data)
        self.raw_scid = getattr(self, 'raw_scid', 0x0054) + 1
        ident = 0x20 + (self.next_tid() % 0x40) * 3
        self.cfg = {'scid': self.raw_scid, 'opt': bytes(data), 'id': ident, 'vcid': None, 'first': None, 'result': None}
        super().send('sig', bytes([0x02, ident, 4, 0]) + struct.pack('<HH', 1, self.raw_scid))

    def on_capture(self, cid, pdu):
        c = getattr(self, 'cfg', None)
        if c is None or cid != 1 or len(pdu) < 4:
            return
        code, ident, body = pdu[0], pdu[1], pdu[4:]
        if code == 0x03 and ident == c['id'] and len(body) >= 8 and c['vcid'] is None:
            dcid, scid, result, _ = struct.unpack('<HHHH', body[:8])
            if scid == c['scid'] and result == 0:
                c['vcid'] = dcid
                o = c['opt']
                super().send('sig', bytes([0x04, ident + 1, 4 + len(o), 0]) + struct.pack('<HH', dcid, 0) + o)
        elif code == 0x04 and len(body) >= 4 and struct.unpack('<H', body[:2])[0] == c['scid'] and c['vcid'] is not None:
            super().send('sig', bytes([0x05, ident, 6, 0]) + struct.pack('<HHH', c['vcid'], 0, 0))
        elif code == 0x05 and ident == c['id'] + 1 and len(body) >= 6 and c['first'] is None:
            c['first'] = struct.unpack('<H', body[4:6])[0]
            if c['first'] != 0:
                super().send('sig', bytes([0x04, c['id'] + 2, 8, 0]) + struct.pack('<HH', c['vcid'], 0) + bytes([0x01, 0x02, 0xA0, 0x02]))
        elif code == 0x05 and ident == c['id'] + 2 and len(body) >= 6:
            c['result'] = struct.unpack('<H', body[4:6])[0]

    def probe(self):
        c, self.cfg = getattr(self, 'cfg', None), None
        if c is not None:
            r = None
            if c['vcid'] is None:
                r = 'connection_request_not_accepted'
            elif c['first'] is None:
                r = 'configure_request_not_answered'
            elif c['first'] != 0 and c['result'] is None:
                r = 'corrected_configure_request_not_answered'
            elif c['first'] != 0 and c['result'] != 0:
                r = f'corrected_configure_request_refused_{c["result"]}'
            if c['vcid'] is not None:  # release the channel again
                super().send('sig', bytes([0x06, 0x7E, 4, 0]) + struct.pack('<HH', c['vcid'], c['scid']))
                self.psettle()
            if r:
                return r
        return super().probe()


class LeCocBed(Bed):
    """Victim = LE credit-based channel server whose application echoes every SDU; attacker = raw
    K-frames on the dynamic CID.  Reference request = one SDU that must come back."""

    name = 'le_coc'
    PSM = 0x0080

    def bring_up(self):
        from bumble import l2cap

        self.v_chan = None

        def on_channel(ch):
            self.v_chan = ch
            ch.sink = lambda data: ch.write(bytes(data))

        self.vic.create_l2cap_server(l2cap.LeCreditBasedChannelSpec(psm=self.PSM, mtu=64, mps=32), on_channel)
        self.rule_violation = False
        self._open_channel()

    def _open_channel(self):
        from bumble import l2cap

        async def go():
            return await self.a_conn.create_l2cap_channel(l2cap.LeCreditBasedChannelSpec(psm=self.PSM))

        self.v_chan = None
        ch = self.world.run(go())
        self.world.settle()
        assert self.v_chan is not None
        self.dyn_cid = ch.destination_cid  # victim's endpoint
        self.dyn_rx_cid = ch.source_cid  # attacker's endpoint
        self.v_mtu = self.v_chan.mtu
        self.v_mps = self.v_chan.mps

    def on_capture(self, cid, pdu):
        # the raw attacker behaves like a peer where the protocol needs it to: a Disconnection Request of the victim for
        # the channel is answered, a (raw) connection request's response is noted
        if cid != 5 or len(pdu) < 4:
            return
        if pdu[0] == 0x06 and len(pdu) == 8 and struct.unpack('<HH', pdu[4:8]) == (self.dyn_rx_cid, self.dyn_cid):
            self.victim_closed_channel = True
            self.send('lesig', bytes([0x07, pdu[1], 4, 0]) + pdu[4:8])
        elif pdu[0] == 0x15 and len(pdu) >= 14:
            self.raw_open_response = struct.unpack('<HHHHH', pdu[4:14])

    def _open_channel_raw(self):
        """LE Credit Based Connection Request sent as raw signalling (the attacker's stack is detached by now)."""
        self.raw_open_response = None
        self.raw_scid = getattr(self, 'raw_scid', 0x0060) + 1
        ident = (self.next_tid() % 250) + 1
        self.send('lesig', bytes([0x14, ident, 10, 0]) + struct.pack('<HHHHH', self.PSM, self.raw_scid, 64, 32, 8))
        self.psettle()
        r = self.raw_open_response
        if r is None or r[4] != 0:
            raise RuntimeError(f'no successful connection response ({r})')
        self.dyn_cid, self.dyn_rx_cid = r[0], self.raw_scid
        self.v_mtu, self.v_mps = self.v_chan.mtu, self.v_chan.mps

    def grant(self, n: int):
        # LE Flow Control Credit: CID = the sender's (attacker's) endpoint of the channel
        self.send('lesig', bytes([0x16, (self.next_tid() % 250) + 1, 4, 0]) + struct.pack('<HH', self.dyn_rx_cid, n))

    def is_valid_disconnect(self, chan, data):
        frames = data if isinstance(data, (tuple, list)) else (data,)
        for f in frames:
            # Disconnection Request naming the channel (DCID = victim endpoint, SCID = attacker endpoint)
            if chan == 'lesig' and len(f) == 8 and f[0] == 0x06 and f[2:4] == b'\x04\x00' and struct.unpack('<HH', f[4:8]) == (self.dyn_cid, self.dyn_rx_cid):
                return True
        return False

    def resync(self, chan, data):
        """K-frames of one SDU form a stream: after a frame that announces an SDU and does not complete it
        the next well-formed thing a peer can send is the rest of that SDU.  Send it (independent decode of
        the SDU length), so that the reference request starts a new SDU.  False = the channel cannot be
        probed (announced length above the victim's MTU, for which the specification demands that the
        victim disconnects the channel; or the frame ends inside the length field)."""
        # frames for which the specification has the RECEIVER disconnect the channel (independent decode): a K-frame longer
        # than the receiver's MPS, an SDU announced longer than its MTU.  If the victim did so, the reference request is
        # made on a new channel of the same connection (see probe)
        self.rule_violation = False
        if chan == 'dyn' and not isinstance(data, (tuple, list)):
            mid = getattr(self.v_chan, 'in_sdu', None) is not None and self.v_chan.state.name == 'CONNECTED'
            if len(data) > self.v_mps:
                self.rule_violation = True  # K-frame longer than the receiver's MPS
            elif not mid and len(data) >= 2:
                total = data[0] | (data[1] << 8)
                # SDU longer than the receiver's MTU, or more data than the SDU length announces
                self.rule_violation = total > self.v_mtu or len(data) - 2 > total
            elif mid:
                want = getattr(self.v_chan, 'in_sdu_length', None)
                have = max(0, len(getattr(self.v_chan, 'in_sdu', b'') or b'') - 2)  # (bumble keeps the 2-octet length in in_sdu)
                self.rule_violation = want is not None and have + len(data) > want
        if chan != 'dyn' or isinstance(data, (tuple, list)) or self.v_chan.in_sdu is None and len(data) >= 2 and len(data) - 2 >= (data[0] | (data[1] << 8)):
            return True
        if len(data) < 2:
            return len(data) == 0
        total = data[0] | (data[1] << 8)
        missing = total - (len(data) - 2)
        if missing <= 0:
            return True
        if total > self.v_mtu:
            return False
        self.grant(8)
        rest = b'z' * missing
        for off in range(0, missing, self.v_mps):
            self.send('dyn', rest[off : off + self.v_mps])
        self.psettle()
        return True

    def probe(self):
        if self.rule_violation and self.v_chan.state.name != 'CONNECTED':
            # the victim closed the CHANNEL over a frame that breaks the channel's rules (what the specification asks of
            # it); the connection must still serve: a new channel is opened and the request made there
            self.psettle()
            try:
                self._open_channel_raw()
            except Exception as e:  # noqa: BLE001
                return f'new_channel_refused_after_rule_violation:{type(e).__name__}'
            self.rule_violation = False
        self.grant(8)
        self.psettle()
        self.n_probe = getattr(self, 'n_probe', 0) + 1
        ping = b'ping-%d' % self.n_probe
        self.send('dyn', struct.pack('<H', len(ping)) + ping)
        return expect_in(self.psettle(), self.dyn_rx_cid, struct.pack('<H', len(ping)) + ping)

    def diagnose(self, out, pout):
        ch = self.v_chan
        if ch.state.name != 'CONNECTED':
            return f'le_coc.state_{ch.state.name}'
        if ch.in_sdu is not None:
            return 'le_coc.receiver_left_inside_an_sdu'
        if ch.credits <= 0:
            return 'le_coc.no_tx_credits'
        return None


class LeCocCrossedBed(LeCocBed):
    """The same, on a channel whose two endpoints have DIFFERENT identifiers (every peer numbers its channels freely;
    two bumble stacks only agree by accident): the victim opens a channel of its own towards the attacker at the moment
    the attacker opens the echo channel, so the echo channel is 0x0040 at the attacker and 0x0041 at the victim."""

    name = 'le_coc_crossed'
    BACK_PSM = 0x0081

    def _open_channel(self):
        from bumble import l2cap

        self.att_dev.create_l2cap_server(l2cap.LeCreditBasedChannelSpec(psm=self.BACK_PSM, mtu=64, mps=32), lambda ch: None)
        self.v_chan = None
        loop = self.world.loop
        tasks = [
            loop.create_task(self.a_conn.create_l2cap_channel(l2cap.LeCreditBasedChannelSpec(psm=self.PSM))),
            loop.create_task(self.v_conn.create_l2cap_channel(l2cap.LeCreditBasedChannelSpec(psm=self.BACK_PSM))),
        ]
        loop.run_until(lambda: all(t.done() for t in tasks), horizon=loop.time() + 30.0, max_steps=200000)
        self.world.settle()
        ch = tasks[0].result()
        tasks[1].result()
        assert self.v_chan is not None
        self.dyn_cid = ch.destination_cid  # victim's endpoint
        self.dyn_rx_cid = ch.source_cid  # attacker's endpoint
        assert self.dyn_cid != self.dyn_rx_cid, (self.dyn_cid, self.dyn_rx_cid)
        self.v_mtu = self.v_chan.mtu
        self.v_mps = self.v_chan.mps


# ---------------------------------------------------------------------------
# classic beds
# ---------------------------------------------------------------------------
SDP_HANDLES = (0x00010001, 0x00010002)


class SdpBed(Bed):
    name = 'sdp'
    classic = True

    def pre_power_on(self):
        from bumble import sdp
        from bumble.core import UUID

        recs = {}
        for hnd, cls16 in zip(SDP_HANDLES, (0x1101, 0x110A)):
            recs[hnd] = [
                sdp.ServiceAttribute(sdp.SDP_SERVICE_RECORD_HANDLE_ATTRIBUTE_ID, sdp.DataElement.unsigned_integer_32(hnd)),
                sdp.ServiceAttribute(sdp.SDP_SERVICE_CLASS_ID_LIST_ATTRIBUTE_ID, sdp.DataElement.sequence([sdp.DataElement.uuid(UUID.from_16_bits(cls16))])),
                sdp.ServiceAttribute(
                    sdp.SDP_PROTOCOL_DESCRIPTOR_LIST_ATTRIBUTE_ID,
                    sdp.DataElement.sequence([sdp.DataElement.sequence([sdp.DataElement.uuid(UUID.from_16_bits(0x0100))])]),
                ),
            ]
        self.vic.sdp_server.service_records.update(recs)

    def bring_up(self):
        self.open_dyn(1)

    def probe(self):
        t = 0x4000 + self.next_tid()
        # ServiceSearchRequest for the UUID only the first record carries (0x1101), at most 10 handles
        self.send('dyn', W.sdp_pdu(0x02, t, W.h('35 03 19 1101 000a 00')))
        exp = W.sdp_pdu(0x03, t, struct.pack('>HHI', 1, 1, SDP_HANDLES[0]) + b'\x00')
        return expect_in(self.psettle(), self.dyn_rx_cid, exp)


class SdpClientBed(Bed):
    """Victim = SDP *client* of the attacker.  Every frame is injected twice over: as the answer to an
    outstanding request of the victim (transaction id patched to the pending one, request chosen to match
    the response type) -- that is the only way a response reaches the client's element parser.  Reference
    request = a ServiceSearch of the victim that the attacker answers properly."""

    name = 'sdp_client'
    classic = True

    def bring_up(self):
        from bumble import sdp

        self.client = sdp.Client(self.v_conn)
        self.world.run(self.client.connect())
        ch = self.client.channel
        self.dyn_cid = ch.source_cid  # victim's endpoint
        self.dyn_rx_cid = ch.destination_cid  # attacker's endpoint
        self.auto = True
        self.last_req = None

    def on_capture(self, cid, pdu):
        if cid != self.dyn_rx_cid or len(pdu) < 5 or pdu[0] not in (2, 4, 6):
            return
        self.last_req = pdu
        if self.auto and pdu[0] == 2:
            self.att_dev.host.send_l2cap_pdu(self.handle, self.dyn_cid, W.sdp_pdu(0x03, (pdu[1] << 8) | pdu[2], struct.pack('>HHI', 1, 1, SDP_HANDLES[0]) + b'\x00'))

    def step(self, chan, data):
        from bumble.core import UUID

        if chan != 'dyn' or isinstance(data, (tuple, list)):
            return super().step(chan, data)
        pid = data[0] if data else 7
        c = self.client
        if pid == 3:
            coro = c.search_services([UUID.from_16_bits(0x1101)])
        elif pid == 5:
            coro = c.get_attributes(SDP_HANDLES[0], [(0, 0xFFFF)])
        else:
            coro = c.search_attributes([UUID.from_16_bits(0x1101)], [(0, 0xFFFF)])
        self.auto = False
        self.last_req = None
        task = self.loop.create_task(coro)
        out = Outcome()
        self.settle(out)
        if out.bad():
            return out
        req = self.last_req
        if req is not None and len(data) >= 3:
            data = data[:1] + req[1:3] + data[3:]
        o2 = super().step(chan, data)
        out.steps += o2.steps
        out.excs += o2.excs
        out.raised += o2.raised
        out.replies += o2.replies
        out.busy, out.rec, out.budget = o2.busy, out.rec or o2.rec, o2.budget
        if out.bad():
            return out
        for _ in range(4):  # the victim may follow up (continuation): refuse until it gives up
            if task.done() or self.last_req is None:
                break
            r = self.last_req
            self.last_req = None
            self.att_dev.host.send_l2cap_pdu(self.handle, self.dyn_cid, W.sdp_pdu(0x01, (r[1] << 8) | r[2], b'\x00\x04'))
            self.settle(out)
            if out.bad():
                return out
        if not task.done():
            task.cancel()
            self.settle(out)
        if task.done() and not task.cancelled():
            task.exception()  # retrieve; the outcome of the poisoned request is not judged
        self.auto = True
        return out

    def probe(self):
        from bumble.core import UUID

        self.auto = True
        task = self.loop.create_task(self.client.search_services([UUID.from_16_bits(0x1101)]))
        self.last_req = None
        self.psettle()
        if not task.done():
            task.cancel()
            self.psettle()
            return 'request_not_sent' if self.last_req is None else 'no_completion'
        if task.cancelled() or task.exception() is not None:
            return 'request_failed'
        return None if list(task.result()) == [SDP_HANDLES[0]] else 'wrong_reply'

    def diagnose(self, out, pout):
        c = self.client
        if c.pending_request is not None:
            return 'sdp_client.pending_request_left_set'
        if c.request_semaphore.locked():
            return 'sdp_client.request_semaphore_held'
        return None


AG_INDICATOR_VALUES = (0, 1, 0, 3, 0, 5)  # call, service, callsetup, signal, roam, battchg


class RfcommBed(Bed):
    """Victim = RFCOMM responder whose application echoes every received chunk on the DLC of server
    channel 1 (`make_app`); attacker = session initiator.  Reference request = a data frame that must
    come back."""

    name = 'rfcomm'
    classic = True
    CHANNEL = 1

    def make_app(self, dlc):
        self.v_dlc = dlc
        self.ag = True
        dlc.sink = lambda data: dlc.write(bytes(data))

    def bring_up(self):
        from bumble import rfcomm

        self.ag = None
        self.server = rfcomm.Server(self.vic)
        ch = self.server.listen(self.make_app, channel=self.CHANNEL)
        assert ch == self.CHANNEL
        # a second, echoing acceptor: data links the peer negotiates itself (hostile parameters) get used
        self.server.listen(lambda dlc: setattr(dlc, 'sink', lambda data: dlc.write(bytes(data))), channel=self.CHANNEL + 1)

        async def go():
            mux = await rfcomm.Client(self.a_conn).start()
            dlc = await mux.open_dlc(self.CHANNEL)
            return mux, dlc

        mux, dlc = self.world.run(go())
        self.world.settle()
        assert self.ag is not None
        self.v_mux = self.v_dlc.multiplexer
        self.dlci = dlc.dlci
        self.new_dlci = self.dlci + 2
        self.dyn_cid = mux.l2cap_channel.destination_cid
        self.dyn_rx_cid = mux.l2cap_channel.source_cid
        self.rx_text = bytearray()

    def on_capture(self, cid, pdu):
        if cid != self.dyn_rx_cid:
            return
        d = W.rfcomm_decode(pdu)
        if d is None:
            return
        ftype, dlci, pf, fcs_ok, len_ok = d
        if ftype == W.UIH and dlci == self.dlci and fcs_ok:
            pos = 3 if pdu[2] & 1 else 4
            if pf:
                pos += 1
            self.rx_text += pdu[pos:-1]

    def send_at(self, text: bytes):
        self.att_dev.host.send_l2cap_pdu(self.handle, self.dyn_cid, W.at_uih(self.dlci, 1, bytes(text), credits=8))

    def is_valid_disconnect(self, chan, data):
        frames = data if isinstance(data, (tuple, list)) else (data,)
        return chan == 'dyn' and any(W.rfcomm_is_disconnect(f, self.dlci) for f in frames)

    def probe(self):
        self.send('dyn', W.rfcomm_frame(W.UIH, self.dlci, 1, 1, b'', 32))
        self.psettle()
        self.rx_text.clear()
        self.n_probe = getattr(self, 'n_probe', 0) + 1
        ping = b'ping-%d' % self.n_probe
        self.send_at(ping)
        self.psettle()
        text = bytes(self.rx_text)
        self.rx_text.clear()
        if not text:
            return 'no_reply'
        return None if text == ping else 'wrong_reply'

    def diagnose(self, out, pout):
        mux = self.v_mux
        cur = mux.dlcs.get(self.dlci)
        if cur is None:
            return 'rfcomm.dlc_removed'
        if cur is not self.v_dlc:
            return 'rfcomm.dlc_object_replaced'
        if self.v_dlc.state.name != 'CONNECTED':
            return f'rfcomm.dlc_state_{self.v_dlc.state.name}'
        if mux.state.name not in ('CONNECTED', 'OPENING'):
            return f'rfcomm.mux_state_{mux.state.name}'
        if self.v_dlc.tx_credits <= 0:
            return 'rfcomm.no_tx_credits'
        return None

    def classify(self, chan, data):
        if chan != 'dyn' or isinstance(data, (tuple, list)):
            return None
        d = W.rfcomm_decode(data)
        if d is None:
            return 'rfcomm.short'
        ftype, dlci, pf, fcs_ok, len_ok = d
        names = {W.SABM: 'SABM', W.UA: 'UA', W.DM: 'DM', W.DISC: 'DISC', W.UIH: 'UIH', 0x03: 'UI'}
        where = 'dlci0' if dlci == 0 else ('live' if dlci == self.dlci else 'other')
        c = f'rfcomm.{names.get(ftype, "type?")}.{where}' + ('' if fcs_ok else '.badfcs')
        if ftype == W.UIH and dlci == 0 and fcs_ok:
            pos = 3 if data[2] & 1 else 4
            info = data[pos:-1]
            if len(info) >= 1:
                c += f'.mcc{info[0] >> 2:02x}{"cmd" if info[0] & 2 else "rsp"}'
                if info[0] >> 2 == 0x20 and len(info) >= 3:
                    c += '.for_live' if info[2] & 0x3F == self.dlci else '.for_other'
        return c


class HfpAgBed(RfcommBed):
    """Victim = RFCOMM responder with an HFP AG on the DLC of server channel 1; reference request AT+CIND?."""

    name = 'hfp_ag'

    def make_app(self, dlc):
        from bumble import hfp

        st = hfp.AgIndicatorState
        inds = [st.call(), st.service(), st.callsetup(), st.signal(), st.roam(), st.battchg()]
        for s, v in zip(inds, AG_INDICATOR_VALUES):
            s.current_status = v
        cfg = hfp.AgConfiguration(
            supported_ag_features=[hfp.AgFeature.ENHANCED_CALL_STATUS, hfp.AgFeature.THREE_WAY_CALLING, hfp.AgFeature.HF_INDICATORS,
                                   hfp.AgFeature.CODEC_NEGOTIATION, hfp.AgFeature.REJECT_CALL],
            supported_ag_indicators=inds,
            supported_hf_indicators=[hfp.HfIndicator.ENHANCED_SAFETY, hfp.HfIndicator.BATTERY_LEVEL],
            supported_ag_call_hold_operations=[hfp.CallHoldOperation.RELEASE_ALL_HELD_CALLS, hfp.CallHoldOperation.HOLD_ALL_ACTIVE_CALLS],
            supported_audio_codecs=[hfp.AudioCodec.CVSD, hfp.AudioCodec.MSBC],
        )
        self.v_dlc = dlc
        self.ag = hfp.AgProtocol(dlc, cfg)

    def probe(self):
        # let the victim flush whatever it still had to say (credits only), then ask
        self.send('dyn', W.rfcomm_frame(W.UIH, self.dlci, 1, 1, b'', 32))
        self.psettle()
        self.rx_text.clear()
        self.send_at(b'AT+CIND?\r')
        self.psettle()
        text = bytes(self.rx_text)
        self.rx_text.clear()
        want = b'\r\n+CIND: ' + ','.join(str(v) for v in AG_INDICATOR_VALUES).encode() + b'\r\n'
        if not text:
            return 'no_reply'
        if want in text and b'\r\nOK\r\n' in text.split(want, 1)[1]:
            return None
        return 'wrong_reply'

    def merges_with_next(self, chan, data):
        # commands end with <CR>: anything after the last <CR> is the beginning of the next line
        return chan == 'at' and not isinstance(data, (tuple, list)) and not bytes(data).endswith(b'\r')

    def diagnose(self, out, pout):
        d = super().diagnose(out, pout)
        if d:
            return d
        if len(self.ag.read_buffer) > 0:
            return 'ag.read_buffer_holds_unconsumed_bytes'
        return None

    def classify(self, chan, data):
        if chan == 'at' and not isinstance(data, (tuple, list)):
            return 'at.no_terminator' if b'\r' not in data else ('at.one_line' if data.count(b'\r') == 1 and data.endswith(b'\r') else 'at.odd_framing')
        return super().classify(chan, data)


class HfpHfBed(RfcommBed):
    """Victim = RFCOMM responder with an HFP HF on the DLC; the attacker plays the AG with a scripted
    raw responder (answers every command of the victim, so the victim never waits on the attacker)."""

    name = 'hfp_hf'
    CIND_TEST = b'+CIND: ("call",(0,1)),("callsetup",(0-3)),("service",(0,1))'
    CIND_READ = b'+CIND: 0,0,1'

    def make_app(self, dlc):
        self.v_dlc = dlc
        self.ag = True  # the HF itself is created after the attacker went raw (after_detach)

    def bring_up(self):
        self.hf = None
        super().bring_up()
        self.cmds = []
        self.respond = True

    def diagnose(self, out, pout):
        d = RfcommBed.diagnose(self, out, pout)
        if d:
            return d
        if self.run_task.done():
            last = [t for src in (pout, out) if src is not None for t, s in src.raised if t not in ('CancelledError', 'TimeoutError')]
            return 'hf.run_loop_terminated' + (f':{last[-1]}' if last else '')
        if len(self.hf.read_buffer) > 0:
            return 'hf.read_buffer_holds_unconsumed_bytes'
        if self.hf.command_lock.locked():
            return 'hf.command_lock_held'
        return None

    def merges_with_next(self, chan, data):
        import re

        # results are <CR><LF>text<CR><LF> units: anything else leaves the reader inside a unit
        return chan == 'at' and not isinstance(data, (tuple, list)) and not re.fullmatch(rb'(\r\n[^\r\n]*\r\n)*', bytes(data))

    def classify(self, chan, data):
        if chan == 'at' and not isinstance(data, (tuple, list)):
            import re

            return 'at.well_framed' if re.fullmatch(rb'(\r\n[^\r\n]*\r\n)*', data) else 'at.odd_framing'
        return RfcommBed.classify(self, chan, data)

    def after_detach(self):
        from bumble import hfp

        cfg = hfp.HfConfiguration(
            supported_hf_features=[hfp.HfFeature.CLI_PRESENTATION_CAPABILITY, hfp.HfFeature.REMOTE_VOLUME_CONTROL, hfp.HfFeature.VOICE_RECOGNITION_ACTIVATION],
            supported_hf_indicators=[],
            supported_audio_codecs=[hfp.AudioCodec.CVSD, hfp.AudioCodec.MSBC],
        )
        self.hf = hfp.HfProtocol(self.v_dlc, cfg)
        self.ind_events = []
        self.hf.on(self.hf.EVENT_AG_INDICATOR, lambda s: self.ind_events.append((s.indicator.value, s.current_status)))
        self.run_task = self.loop.create_task(self.hf.run())
        self.world.settle()
        assert getattr(self.hf, '_slc_initialized', True), 'HF service level connection did not come up'
        self.flip = 0

    def on_capture(self, cid, pdu):
        n0 = len(self.rx_text)
        super().on_capture(cid, pdu)
        if len(self.rx_text) == n0 or not self.respond:
            return
        while b'\r' in self.rx_text:
            line, _, rest = bytes(self.rx_text).partition(b'\r')
            self.rx_text = bytearray(rest)
            self.cmds.append(line)
            if line.startswith(b'AT+BRSF='):
                rsp = [b'+BRSF: 0']
            elif line == b'AT+CIND=?':
                rsp = [self.CIND_TEST]
            elif line == b'AT+CIND?':
                rsp = [self.CIND_READ]
            else:
                rsp = []
            text = b''.join(b'\r\n' + r + b'\r\n' for r in rsp + [b'OK'])
            self.send_at(text)

    def probe(self):
        from bumble import hfp

        self.send('dyn', W.rfcomm_frame(W.UIH, self.dlci, 1, 1, b'', 32))
        self.psettle()
        # (1) an unsolicited +CIEV must reach the application
        self.flip ^= 1
        self.ind_events.clear()
        self.send_at(b'\r\n+CIEV: 1,%d\r\n' % self.flip)
        self.psettle()
        if ('call', self.flip) not in self.ind_events:
            return 'unsolicited_not_delivered'
        # (2) a command round trip
        task = self.loop.create_task(self.hf.execute_command('AT+CIND?', response_type=hfp.AtResponseType.SINGLE))
        self.cmds.clear()
        self.psettle()
        if not task.done():
            task.cancel()
            self.psettle()
            return 'command_not_sent' if b'AT+CIND?' not in self.cmds else 'no_completion'
        if task.cancelled() or task.exception() is not None:
            return 'command_failed'
        r = task.result()
        if r.code == '+CIND' and list(r.parameters) == [b'0', b'0', b'1']:
            return None
        return 'wrong_reply'


class AvdtpBed(Bed):
    name = 'avdtp'
    classic = True

    def bring_up(self):
        from bumble import a2dp, avdtp

        I = a2dp.SbcMediaCodecInformation
        caps = avdtp.MediaCodecCapabilities(
            media_type=avdtp.MediaType.AUDIO,
            media_codec_type=a2dp.CodecType.SBC,
            media_codec_information=I(
                sampling_frequency=I.SamplingFrequency.SF_48000 | I.SamplingFrequency.SF_44100,
                channel_mode=I.ChannelMode.MONO | I.ChannelMode.STEREO | I.ChannelMode.JOINT_STEREO,
                block_length=I.BlockLength.BL_4 | I.BlockLength.BL_8 | I.BlockLength.BL_12 | I.BlockLength.BL_16,
                subbands=I.Subbands.S_4 | I.Subbands.S_8,
                allocation_method=I.AllocationMethod.LOUDNESS | I.AllocationMethod.SNR,
                minimum_bitpool_value=2,
                maximum_bitpool_value=53,
            ),
        )
        self.servers = []

        def on_conn(server):
            self.servers.append(server)
            server.add_sink(caps)

        self.listener = avdtp.Listener.for_device(self.vic)
        self.listener.on('connection', on_conn)
        self.open_dyn(0x19)
        self.world.settle()
        assert self.servers, 'AVDTP listener did not create a Protocol'

    def resync(self, chan, data):
        # independent decode: could what was sent have configured the (only) end point, SEID 1?  Only a Set Configuration
        # command naming it can (single packet, or a fragmented one: continue / end packets may complete an earlier start)
        frames = data if isinstance(data, (tuple, list)) else (data,)

        def may_configure(f):
            if len(f) < 2:
                return False
            ptype, mtype = (f[0] >> 2) & 3, f[0] & 3
            if ptype >= 2:
                return True
            at = 1 if ptype == 0 else 2
            return mtype == 0 and len(f) > at + 1 and (f[at] & 0x3F) == 3 and (f[at + 1] >> 2) == 1

        if chan == 'dyn' and any(may_configure(f) for f in frames):
            self.may_be_configured = True
        return True

    def probe(self):
        lab = self.next_tid() & 0x0F
        self.send('dyn', bytes([(lab << 4) | 0x00, 0x01]))
        # Discover response (accept): one SEP, SEID 1, audio / SNK; in use only if something configured it
        exp = tuple(bytes([(lab << 4) | 0x02, 0x01, (1 << 2) | (u << 1), 0x08]) for u in (0, 1))
        replies = self.psettle()
        r = expect_in(replies, self.dyn_rx_cid, exp)
        if r is not None:
            return r
        # second reference request: configuring the idle end point (Set Configuration, SEID 1) is accepted.  If what was
        # sent may itself have configured it, the attacker first releases it, as a peer would (Abort is always accepted)
        def abort():
            lab = self.next_tid() & 0x0F
            self.send('dyn', bytes([(lab << 4) | 0x00, 0x0A, 0x04]))
            self.psettle()

        if getattr(self, 'may_be_configured', False):
            abort()
            self.may_be_configured = False
        lab = self.next_tid() & 0x0F
        self.send('dyn', bytes([(lab << 4) | 0x00, 0x03, 0x04, 0x08]) + W.h('01 00 07 06 00 00 21 15 02 35'))
        r = expect_in(self.psettle(), self.dyn_rx_cid, bytes([(lab << 4) | 0x02, 0x03]))
        abort()
        return None if r is None else 'idle_end_point_not_configurable:' + r


class AvctpBed(Bed):
    name = 'avctp'
    classic = True

    def bring_up(self):
        from bumble import avrcp

        self.avrcp = avrcp.Protocol()
        self.avrcp.listen(self.vic)
        self.open_dyn(0x17)
        self.world.settle()
        assert self.avrcp.avctp_protocol is not None, 'AVRCP did not attach to the AVCTP channel'

    def diagnose(self, out, pout):
        if self.avrcp.avctp_protocol is None:
            return 'avrcp.avctp_protocol_detached'
        if getattr(self.avrcp, 'receive_command_state', None) is not None:
            return 'avrcp.receive_command_state_left_set'
        return None

    def probe(self):
        lab = 1 + (self.next_tid() % 14)  # never label 0 / the seeds' label 1 twice in a row
        # AVRCP GetCapabilities(COMPANY_ID), STATUS command to the PANEL subunit
        self.send('dyn', bytes([(lab << 4) | 0x00]) + W.h('110e 01 48 00 001958 10 00 0001 02'))
        got = [p for c, p in self.psettle() if c == self.dyn_rx_cid]
        if not got:
            return 'no_reply'
        head = bytes([(lab << 4) | 0x02]) + W.h('110e 0c 48 00 001958 10 00')
        for p in got:
            if p.startswith(head) and len(p) >= len(head) + 4:
                n = (p[len(head)] << 8) | p[len(head) + 1]
                params = p[len(head) + 2 :]
                if n == len(params) and params[0] == 0x02 and params[1] >= 1 and len(params) == 2 + 3 * params[1] and params[2:5] == W.h('001958'):
                    return None
        return 'wrong_reply'


# ---------------------------------------------------------------------------
# hostile controller
# ---------------------------------------------------------------------------
class HciLeBed(AttServerBed):
    """Raw HCI packets into victim.host.on_packet; afterwards the victim must still complete an HCI
    command and still answer an ATT Read Request that arrives over the (real) link."""

    name = 'hci_le'

    def is_valid_disconnect(self, chan, data):
        frames = data if isinstance(data, (tuple, list)) else (data,)
        return chan == 'hci' and any(W.hci_is_disconnection_complete(f, self.v_handle) for f in frames)

    def classify(self, chan, data):
        if chan != 'hci':
            return None
        f = data[-1] if isinstance(data, (tuple, list)) else data
        if len(f) < 2:
            return 'hci.short'
        if f[0] == 0x04:
            return f'hci.event_{f[1]:02x}' + (f'_{f[3]:02x}' if f[1] == 0x3E and len(f) > 3 else '')
        return {0x01: 'hci.command', 0x02: 'hci.acl', 0x03: 'hci.sco', 0x05: 'hci.iso'}.get(f[0], f'hci.type_{f[0]:02x}')

    def probe_cmd(self):
        from bumble import hci

        task = self.loop.create_task(self.vic.host.send_command(hci.HCI_Read_BD_ADDR_Command()))
        self.psettle()
        if not task.done():
            task.cancel()
            self.psettle()
            return 'hci_command_no_completion'
        if task.cancelled() or task.exception() is not None:
            return 'hci_command_failed'
        r = task.result()
        rp = getattr(r, 'return_parameters', r)
        if getattr(rp, 'status', None) != 0 or bytes(getattr(rp, 'bd_addr')) != bytes(self.vic.public_address):
            return 'hci_command_wrong_result'
        return None

    def probe(self):
        return self.probe_cmd() or super().probe()


class _StreamSeam:
    """Controller -> host direction of the victim carried as a byte stream through a real
    transport.common.PacketParser (what the serial / tcp / pty transports do): the victim Controller's
    `host` is this object, the parser's sink is the real Host."""

    def __init__(self, host):
        from bumble.transport.common import PacketParser

        self.parser = PacketParser(host)

    def on_packet(self, packet: bytes):
        self.parser.feed_data(bytes(packet))


class _StreamMixin:
    diag_first = True

    def after_detach(self):
        super().after_detach()
        self.stream = _StreamSeam(self.vic.host)
        self.world.controllers[1].host = self.stream

    def send(self, chan, data):
        if chan == 'hci':
            # hostile controller bytes enter the stream exactly like the genuine ones (same parser state)
            self.loop.call_soon(self.stream.parser.feed_data, bytes(data))
        else:
            super().send(chan, data)

    def is_valid_disconnect(self, chan, data):
        frames = data if isinstance(data, (tuple, list)) else (data,)
        return chan == 'hci' and (W.hci_is_disconnection_complete(b''.join(frames), self.v_handle) or super().is_valid_disconnect(chan, data))

    def diagnose(self, out, pout):
        p = self.stream.parser
        if p.state != 0 or p.bytes_needed != 1 or len(p.packet):
            return f'hci_stream.parser_left_in_state_{p.state}_needing_{p.bytes_needed}'
        return None


class HciLeStreamBed(_StreamMixin, HciLeBed):
    name = 'hci_le_stream'


class HciClBed(ClSigBed):
    name = 'hci_cl'
    is_valid_disconnect = HciLeBed.is_valid_disconnect
    probe_cmd = HciLeBed.probe_cmd
    classify = HciLeBed.classify

    def probe(self):
        return self.probe_cmd() or super().probe()


class HciClStreamBed(_StreamMixin, HciClBed):
    name = 'hci_cl_stream'


BEDS = {
    b.name: b
    for b in (AttServerBed, AttClientBed, AttClientPendingBed, SmpBed, LeSigBed, LeCocBed, LeCocCrossedBed, ClSigBed, SdpBed, RfcommBed, HfpAgBed, HfpHfBed, AvdtpBed, AvctpBed,
              HciLeBed, HciClBed, HciLeStreamBed, HciClStreamBed, SdpClientBed)
}


# ---------------------------------------------------------------------------
# HCI seeds (need the registry of event classes)
# ---------------------------------------------------------------------------
def hci_seeds(handle: int, peer_addr_hex: str) -> list[W.Seed]:
    from bumble import hci

    from .. import fieldenum as fe

    S = []
    peer = hci.Address(peer_addr_hex)
    ov = {'connection_handle': [handle], 'status': [0], 'bd_addr': [peer]}

    def lens_for(prefix_len, body):
        return ((2, 1, 'le'),)

    for code, cls in sorted(hci.HCI_Event.event_classes.items()):
        try:
            kw, _ = next(iter(fe.enumerate_kwargs(cls, 0, budget=255, overrides=ov)))
            body = fe.ref_encode(cls, kw)
        except Exception:
            body = b''
        S.append(W.Seed(f'hci.evt_{code:02x}_{cls.__name__[4:-6].lower()}', 'hci', bytes([4, code, len(body)]) + body, ((2, 1, 'le'),), 1))
    for code, cls in sorted(hci.HCI_LE_Meta_Event.subevent_classes.items()):
        try:
            kw, _ = next(iter(fe.enumerate_kwargs(cls, 0, budget=254, overrides=ov)))
            body = fe.ref_encode(cls, kw)
        except Exception:
            body = b''
        S.append(W.Seed(f'hci.le_{code:02x}_{cls.__name__[4:-6].lower()}', 'hci', bytes([4, 0x3E, len(body) + 1, code]) + body, ((2, 1, 'le'),), 3))
    hl = struct.pack('<H', handle)
    # hand-written events with live values
    S.append(W.Seed('hci.disconnection_complete_live', 'hci', b'\x04\x05\x04\x00' + hl + b'\x13', ((2, 1, 'le'),), 1))
    S.append(W.Seed('hci.disconnection_complete_failed', 'hci', b'\x04\x05\x04\x0c' + hl + b'\x13', ((2, 1, 'le'),), 1))
    S.append(W.Seed('hci.disconnection_complete_unknown', 'hci', b'\x04\x05\x04\x00\x77\x07\x13', ((2, 1, 'le'),), 1))
    S.append(W.Seed('hci.command_complete_unsent', 'hci', W.h('04 0e 04 01 09 10 00'), ((2, 1, 'le'),), 1))
    S.append(W.Seed('hci.command_complete_nop', 'hci', W.h('04 0e 03 01 00 00'), ((2, 1, 'le'),), 1))
    S.append(W.Seed('hci.command_complete_0_credits', 'hci', W.h('04 0e 04 00 09 10 00'), ((2, 1, 'le'),), 1))
    S.append(W.Seed('hci.command_status_unsent', 'hci', W.h('04 0f 04 00 01 06 04'), ((2, 1, 'le'),), 1))
    S.append(W.Seed('hci.command_status_0_credits', 'hci', W.h('04 0f 04 00 00 06 04'), ((2, 1, 'le'),), 1))
    S.append(W.Seed('hci.nocp_over', 'hci', b'\x04\x13\x05\x01' + hl + b'\xff\xff', ((2, 1, 'le'), (3, 1, 'le')), 1))
    S.append(W.Seed('hci.nocp_two', 'hci', b'\x04\x13\x09\x02' + hl + b'\x01\x00' + b'\x77\x07\x05\x00', ((2, 1, 'le'), (3, 1, 'le')), 1))
    S.append(W.Seed('hci.le_meta_empty', 'hci', W.h('04 3e 00'), ((2, 1, 'le'),), 1))
    S.append(W.Seed('hci.hardware_error', 'hci', W.h('04 10 01 42'), ((2, 1, 'le'),), 1))
    S.append(W.Seed('hci.data_buffer_overflow', 'hci', W.h('04 1a 01 01'), ((2, 1, 'le'),), 1))
    S.append(W.Seed('hci.encryption_change_live', 'hci', b'\x04\x08\x04\x00' + hl + b'\x01', ((2, 1, 'le'),), 1))
    S.append(W.Seed('hci.encryption_change_fail', 'hci', b'\x04\x08\x04\x06' + hl + b'\x00', ((2, 1, 'le'),), 1))
    # ACL / SCO / ISO / command packets
    att_read = W.h('0300 0400 0a 0300')
    S.append(W.Seed('hci.acl_whole', 'hci', b'\x02' + struct.pack('<HH', handle | 0x2000, len(att_read)) + att_read, ((3, 2, 'le'), (5, 2, 'le')), None))
    S.append(W.Seed('hci.acl_first_nonflush', 'hci', b'\x02' + struct.pack('<HH', handle, len(att_read)) + att_read, ((3, 2, 'le'), (5, 2, 'le')), None))
    S.append(W.Seed('hci.acl_unknown_handle', 'hci', b'\x02' + struct.pack('<HH', 0x0777 | 0x2000, len(att_read)) + att_read, ((3, 2, 'le'), (5, 2, 'le')), None))
    S.append(W.Seed('hci.sco', 'hci', b'\x03' + struct.pack('<HB', handle, 4) + b'\x01\x02\x03\x04', ((3, 1, 'le'),), None))
    S.append(W.Seed('hci.iso', 'hci', b'\x05' + struct.pack('<HH', handle | 0x2000, 8) + W.h('0100 0400 aabbccdd'), ((3, 2, 'le'), (7, 2, 'le')), None))
    S.append(W.Seed('hci.iso_ts', 'hci', b'\x05' + struct.pack('<HH', handle | 0x6000, 12) + W.h('01020304 0100 0400 aabbccdd'), ((3, 2, 'le'), (11, 2, 'le')), None))
    S.append(W.Seed('hci.command', 'hci', W.h('01 03 0c 00'), ((3, 1, 'le'),), None))
    return S


def acl_fragment_sequences(handle: int, max_packets: int) -> list[tuple]:
    """Sequences of <= max_packets raw HCI ACL packets carrying pieces of one ATT Read Request with every
    packet-boundary flag (the C05 alphabet), as multi-frame mutants on the 'hci' seam."""
    pdu = W.h('0300 0400 0a 0300')
    pieces = {'A': pdu[:4], 'B': pdu[4:], 'W': pdu, 'E': b'', 'L': W.h('ff7f 0400 0a')}
    alphabet = [(pb, k) for pb in range(4) for k in pieces]
    out = []

    def pkt(pb, k):
        d = pieces[k]
        return b'\x02' + struct.pack('<HH', handle | (pb << 12), len(d)) + d

    import itertools

    for n in range(1, max_packets + 1):
        for combo in itertools.product(alphabet, repeat=n):
            label = ','.join(f'{pb}{k}' for pb, k in combo)
            out.append((f'hci.aclseq|{label}', 'hci', tuple(pkt(pb, k) for pb, k in combo)))
    return out


def l2cap_frame_mutants(att_like: bytes, chan_cids: list[int]) -> list[tuple]:
    """Raw L2CAP frames (one ACL payload each): header length inconsistent with the payload, every CID
    in 0x0000-0x007F plus the ends of the range with three payloads."""
    out = []
    base = W.Seed('l2cap.frame', 'acl', struct.pack('<HH', len(att_like), 4) + att_like, ((0, 2, 'le'),), None)
    out += list(W.mutants_of(base, 1))
    for cid in list(range(0, 0x80)) + [0x00FF, 0x0100, 0x7FFF, 0x8000, 0xFFFF] + chan_cids:
        for lab, payload in (('empty', b''), ('one', b'\x00'), ('att', att_like)):
            out.append((f'l2cap.cid_sweep|{cid:04x}|{lab}', 'acl', struct.pack('<HH', len(payload), cid) + payload))
    return out
