"""C19 helpers: independent AVDTP / AVCTP fragmenters, reference assemblers and the
explicit-state search over the real MessageAssemblers.

Everything here is written from the AVDTP 1.3 (8.4.2 signalling header, 8.4.3
fragmentation) and AVCTP 1.4 (6.1 packet formats) specifications; nothing calls
the code under test except `Real*` wrappers at the bottom.

AVDTP signalling packet, as laid out by bumble on both its sending and receiving side:
  single   : [label<<4 | 0<<2 | msgtype] [rfa<<6 | signal] payload
  start    : [label<<4 | 1<<2 | msgtype] [rfa<<6 | signal] [NOSP] payload
  continue : [label<<4 | 2<<2 | msgtype] payload
  end      : [label<<4 | 3<<2 | msgtype] payload
(NOTE: the AVDTP specification, Figure 8.2, and BlueZ put NOSP in octet 1 and the
signal identifier in octet 2 of a start packet - bumble has them the other way
round.  The property statement only asks bumble<->bumble exactness for AVDTP, so
the fragmenter follows bumble's layout and the deviation is reported as a note,
not as a violation.)

AVCTP packet:
  single   : [label<<4 | 0<<2 | c_r<<1 | ipid] [pid hi] [pid lo] payload
  start    : [label<<4 | 1<<2 | c_r<<1 | ipid] [number of packets] [pid hi] [pid lo] payload
  continue : [label<<4 | 2<<2 | c_r<<1 | ipid] payload
  end      : [label<<4 | 3<<2 | c_r<<1 | ipid] payload
"""
from __future__ import annotations

import copy

SINGLE, START, CONTINUE, END = 0, 1, 2, 3
PT_NAME = {SINGLE: 'single', START: 'start', CONTINUE: 'continue', END: 'end'}


# ---------------------------------------------------------------------------
# fragmenters
# ---------------------------------------------------------------------------
def avdtp_fragment(label: int, mtype: int, signal: int, payload: bytes, mtu: int, fill: bool = True) -> list[bytes]:
    """Spec-conformant fragmentation.  fill=True packs continue/end packets up to
    the MTU (mtu-1 payload bytes); fill=False uses mtu-3 bytes in every packet
    (what bumble's own sender does) - both are legal."""
    if len(payload) + 2 <= mtu:
        return [bytes([label << 4 | SINGLE << 2 | mtype, signal]) + payload]
    first = mtu - 3
    per = (mtu - 1) if fill else (mtu - 3)
    chunks = [payload[:first]]
    rest = payload[first:]
    while rest:
        chunks.append(rest[:per])
        rest = rest[per:]
    n = len(chunks)
    assert 2 <= n <= 255
    out = [bytes([label << 4 | START << 2 | mtype, signal, n]) + chunks[0]]
    for i, c in enumerate(chunks[1:], start=1):
        pt = END if i == n - 1 else CONTINUE
        out.append(bytes([label << 4 | pt << 2 | mtype]) + c)
    return out


def avctp_fragment(label: int, c_r: int, ipid: int, pid: int, payload: bytes, mtu: int) -> list[bytes]:
    b0 = lambda pt: label << 4 | pt << 2 | c_r << 1 | ipid
    if len(payload) + 3 <= mtu:
        return [bytes([b0(SINGLE), pid >> 8, pid & 0xFF]) + payload]
    first = mtu - 4
    per = mtu - 1
    chunks = [payload[:first]]
    rest = payload[first:]
    while rest:
        chunks.append(rest[:per])
        rest = rest[per:]
    n = len(chunks)
    assert 2 <= n <= 255
    out = [bytes([b0(START), n, pid >> 8, pid & 0xFF]) + chunks[0]]
    for i, c in enumerate(chunks[1:], start=1):
        out.append(bytes([b0(END if i == n - 1 else CONTINUE)]) + c)
    return out


def avctp_fragment_pid_everywhere(label: int, c_r: int, ipid: int, pid: int, payload: bytes, mtu: int) -> list[bytes]:
    """NOT the layout of the AVCTP specification: the profile identifier repeated in continue and end packets."""
    b0 = lambda pt: label << 4 | pt << 2 | c_r << 1 | ipid
    if len(payload) + 3 <= mtu:
        return [bytes([b0(SINGLE), pid >> 8, pid & 0xFF]) + payload]
    first = mtu - 4
    per = mtu - 3
    chunks = [payload[:first]]
    rest = payload[first:]
    while rest:
        chunks.append(rest[:per])
        rest = rest[per:]
    n = len(chunks)
    assert 2 <= n <= 255
    out = [bytes([b0(START), n, pid >> 8, pid & 0xFF]) + chunks[0]]
    for i, c in enumerate(chunks[1:], start=1):
        out.append(bytes([b0(END if i == n - 1 else CONTINUE), pid >> 8, pid & 0xFF]) + c)
    return out


def avctp_layout_accepted() -> str:
    """Which fragment layout the real assembler reassembles at all: 'spec' (profile identifier in the start packet
    only), else 'pid_everywhere', else 'none'.  Decided by feeding one intact three-packet message to a fresh assembler."""
    pl = payload_bytes(40, 3)
    for name, fr in (('spec', avctp_fragment), ('pid_everywhere', avctp_fragment_pid_everywhere)):
        real = RealAvctp()
        got = []
        for p in fr(3, 0, 0, 0x110E, pl, 20):
            o, _ = real.feed(p)
            got += o
        if got == [(3, True, False, 0x110E, pl)]:
            return name
    return 'none'


# ---------------------------------------------------------------------------
# reference assemblers (used (a) strictly, for the sender check, where the input
# is a complete well-formed sequence, and (b) as a set of *policy variants* that
# can only EXCUSE a delivery of the real assembler, never demand one)
# ---------------------------------------------------------------------------
class RefAvdtp:
    """policy = (on_malformed, on_mismatch) each 'ignore' | 'discard'."""

    def __init__(self, policy=('ignore', 'ignore')):
        self.policy = policy
        self.cur = None  # (label, mtype, signal, nosp, count, payload)

    def canon(self):
        return self.cur

    def feed(self, pdu: bytes):
        """returns list of delivered (label, mtype, signal, payload)"""
        mal, mis = self.policy
        if len(pdu) < 1:
            if mal == 'discard':
                self.cur = None
            return []
        label, pt, mtype = pdu[0] >> 4, (pdu[0] >> 2) & 3, pdu[0] & 3
        if pt in (SINGLE, START):
            if len(pdu) < (2 if pt == SINGLE else 3):
                if mal == 'discard':
                    self.cur = None
                return []
            signal = pdu[1] & 0x3F
            if pt == SINGLE:
                self.cur = None
                return [(label, mtype, signal, pdu[2:])]
            self.cur = (label, mtype, signal, pdu[2], 1, pdu[3:])
            return []
        if self.cur is None:
            return []
        cl, cm, cs, nosp, count, data = self.cur
        if label != cl or mtype != cm:
            if mis == 'discard':
                self.cur = None
            return []
        count += 1
        data += pdu[1:]
        if pt == END:
            self.cur = None
            return [(cl, cm, cs, data)] if count == nosp else []
        if count >= nosp:
            self.cur = None
            return []
        self.cur = (cl, cm, cs, nosp, count, data)
        return []


class RefAvctp:
    SKIP = 1  # header bytes of a continue / end packet

    def __init__(self, policy=('ignore', 'ignore')):
        self.policy = policy
        self.cur = None  # (label, c_r, ipid, pid, n, count, payload)

    def canon(self):
        return self.cur

    def feed(self, pdu: bytes):
        """returns list of delivered (label, is_command, ipid, pid, payload)"""
        mal, mis = self.policy
        if len(pdu) < 1:
            if mal == 'discard':
                self.cur = None
            return []
        label, pt, c_r, ipid = pdu[0] >> 4, (pdu[0] >> 2) & 3, (pdu[0] >> 1) & 1, pdu[0] & 1
        if c_r == 0 and ipid:
            # IPID is only meaningful in responses
            if mal == 'discard':
                self.cur = None
            return []
        if pt in (SINGLE, START):
            if len(pdu) < (3 if pt == SINGLE else 4):
                if mal == 'discard':
                    self.cur = None
                return []
            if pt == SINGLE:
                self.cur = None
                return [(label, c_r == 0, bool(ipid), pdu[1] << 8 | pdu[2], pdu[3:])]
            self.cur = (label, c_r, ipid, pdu[2] << 8 | pdu[3], pdu[1], 1, pdu[4:])
            return []
        if self.cur is None:
            return []
        cl, cc, ci, pid, n, count, data = self.cur
        if label != cl or c_r != cc:
            if mis == 'discard':
                self.cur = None
            return []
        count += 1
        if self.SKIP == 3 and (len(pdu) < 3 or (pdu[1] << 8 | pdu[2]) != pid):
            if mis == 'discard' or len(pdu) < 3:
                self.cur = None
            return []
        data += pdu[self.SKIP:]
        if pt == END:
            self.cur = None
            return [(cl, cc == 0, bool(ci), pid, data)] if count == n else []
        if count >= n:
            self.cur = None
            return []
        self.cur = (cl, cc, ci, pid, n, count, data)
        return []


class RefAvctpPid(RefAvctp):
    SKIP = 3


POLICIES = [(a, b) for a in ('ignore', 'discard') for b in ('ignore', 'discard')]


# ---------------------------------------------------------------------------
# wrappers around the real assemblers
# ---------------------------------------------------------------------------
def _canon_vars(obj):
    """Every data attribute of the assembler (whatever it is called), in a hashable form."""
    out = []
    for k, v in sorted(vars(obj).items()):
        if callable(v):
            continue
        if isinstance(v, (bytearray, memoryview)):
            v = bytes(v)
        elif isinstance(v, list):
            v = tuple(bytes(x) if isinstance(x, (bytes, bytearray)) else repr(x) for x in v)
        elif not isinstance(v, (int, bytes, str, bool, type(None), tuple, float)):
            v = repr(v)
        out.append((k, v))
    return tuple(out)


class RealAvdtp:
    proto = 'avdtp'

    def __init__(self):
        from bumble import avdtp

        self.out = []
        self.asm = avdtp.MessageAssembler(self._cb)

    def _cb(self, label, message):
        self.out.append((label, int(message.message_type), int(message.signal_identifier), bytes(message.payload)))

    def feed(self, pdu: bytes):
        """returns (delivered list, exception name or None)"""
        self.out = []
        try:
            self.asm.on_pdu(pdu)
        except Exception as e:  # an exception = this PDU was not processed
            return self.out, type(e).__name__
        return self.out, None

    def canon(self):
        return _canon_vars(self.asm)


class RealAvctp:
    proto = 'avctp'

    def __init__(self):
        from bumble import avctp

        self.out = []
        self.asm = avctp.MessageAssembler(self._cb)

    def _cb(self, label, is_command, ipid, pid, payload):
        self.out.append((label, bool(is_command), bool(ipid), pid, bytes(payload)))

    def feed(self, pdu: bytes):
        self.out = []
        try:
            self.asm.on_pdu(pdu)
        except Exception as e:
            return self.out, type(e).__name__
        return self.out, None

    def canon(self):
        return _canon_vars(self.asm)


# ---------------------------------------------------------------------------
# message sets and token alphabets
# ---------------------------------------------------------------------------
def payload_bytes(n: int, salt: int) -> bytes:
    # bytes that look like headers of every packet type and label, never constant
    return bytes(((salt * 37 + 11 * i + (i * i) % 7) & 0xFF) for i in range(n))


def avdtp_messages(lengths, mtu):
    """message i: label i (so message 0 has label 0 = the assembler's reset value),
    types COMMAND / RESPONSE_ACCEPT alternate, signal ids without a registered
    Message subclass (the assembler builds a generic Message whose payload is the
    raw reassembled bytes)."""
    msgs = []
    for i, n in enumerate(lengths):
        label, mtype, signal = i, (0, 2, 0, 2)[i % 4], 0x14 + i
        pl = payload_bytes(n, i + 1)
        msgs.append({'key': (label, mtype, signal, pl), 'frags': avdtp_fragment(label, mtype, signal, pl, mtu)})
    return msgs


def avctp_messages(lengths, mtu, fragment=None):
    msgs = []
    for i, n in enumerate(lengths):
        label, c_r, pid = i, i % 2, (0x110E, 0x1234, 0x110C)[i % 3]
        pl = payload_bytes(n, i + 5)
        msgs.append({'key': (label, c_r == 0, False, pid, pl), 'frags': (fragment or avctp_fragment)(label, c_r, 0, pid, pl, mtu)})
    return msgs


def avctp_pid_messages(lengths, mtu):
    return avctp_messages(lengths, mtu, avctp_fragment_pid_everywhere)


def pdu_kind(pdu: bytes) -> str:
    if len(pdu) == 0:
        return 'empty'
    return PT_NAME[(pdu[0] >> 2) & 3]


def alphabet(proto: str, msgs):
    """[(token, pdu)] - token is a JSON-able tuple.
    ('f', m, k)   fragment k of message m, untouched
    ('wl', m, k)  same with another transaction label
    ('wt', m, k)  same with another message type (AVDTP) / C/R bit (AVCTP)
    ('pt', m, k)  continue relabelled end / end relabelled continue
    ('empty',)    zero-length PDU
    ('short',)    a 1-byte PDU claiming to be a start packet
    dropped / duplicated / out-of-order fragments, continue-without-start and
    end-too-early are all sequences over the 'f' tokens."""
    out = []
    for m, msg in enumerate(msgs):
        for k, pdu in enumerate(msg['frags']):
            out.append((('f', m, k), pdu))
    for m, msg in enumerate(msgs):
        fr = msg['frags']
        if len(fr) < 2:
            continue
        # mutate the first continue (if any) and the end packet of each fragmented message
        idx = sorted({1, len(fr) - 1})
        for k in idx:
            pdu = fr[k]
            out.append((('wl', m, k), bytes([pdu[0] ^ 0x80]) + pdu[1:]))
            if proto == 'avdtp':
                out.append((('wt', m, k), bytes([pdu[0] ^ 0x01]) + pdu[1:]))
            else:
                out.append((('wt', m, k), bytes([pdu[0] ^ 0x02]) + pdu[1:]))
            out.append((('pt', m, k), bytes([pdu[0] ^ 0x04]) + pdu[1:]))
    out.append((('empty',), b''))
    out.append((('short',), bytes([0xF0 | START << 2])))
    return out


# ---------------------------------------------------------------------------
# explicit-state search
# ---------------------------------------------------------------------------
def context_class(Ref, prefix_pdus) -> str:
    """What the (ignore-policy) reference assembler had seen just before an intact
    run started: nothing / an unterminated message / a message it had just
    completed / a packet that belongs to no message (stray)."""
    if not prefix_pdus:
        return 'first_message'
    r = Ref(('ignore', 'ignore'))
    out = []
    for p in prefix_pdus:
        out = r.feed(p)
    if r.cur is not None:
        return 'after_unterminated_message'
    if out:
        return 'after_complete_message'
    return 'after_stray_or_broken_packets'


def content_class(own_parts, delivered: bytes) -> str:
    """How a delivered payload that equals no sent message relates to the fragments
    of the message with the same transaction label."""
    parts = [p for p in own_parts if p]

    def build(rest, start, strict):
        # strict: parts may only be taken in order, each at most once
        if not rest:
            return True
        for i in range(start if strict else 0, len(parts)):
            if rest.startswith(parts[i]) and build(rest[len(parts[i]):], i + 1, strict):
                return True
        return False

    if len(delivered) <= 64 * max(1, len(parts)):
        if build(delivered, 0, True):
            return 'own_fragments_missing'
        if len(delivered) <= sum(len(p) for p in parts) * 3 and build(delivered, 0, False):
            return 'own_fragments_duplicated_or_reordered'
    return 'foreign_bytes_included'


def ignored_since_initial(Real, Ref, pdus) -> int:
    """number of packets the ignore-policy reference assembler ignored since the real
    assembler was last in its initial state"""
    real, ref = Real(), Ref(('ignore', 'ignore'))
    init = real.canon()
    ignored = 0
    for p in pdus:
        before = ref.cur
        out = ref.feed(p)
        if ref.cur == before and not out and not (len(p) >= 1 and (p[0] >> 2) & 3 in (SINGLE, START) and ref.cur is not None):
            ignored += 1
        real.feed(p)
        if real.canon() == init:
            ignored = 0
    return ignored


class _FirstPerSignature:
    def __init__(self):
        self.items = []
        self.keys = set()
        self.instances = 0

    def append(self, v):
        self.instances += 1
        k = repr(sorted(v[1].items()))
        if k not in self.keys:
            self.keys.add(k)
            self.items.append(v)


def bfs(proto: str, msgs, depth: int, max_states: int | None = None):
    """Breadth-first search over token sequences on the real assembler.

    Search state = (canon(real assembler), intact-run progress, canon of every
    reference policy variant).  Two histories with the same key have identical
    futures: the real assembler's behaviour is a function of the fields in
    canon() (those are all its attributes), the oracle's demands depend only on
    the run progress, and its excuses only on the reference variants.

    Returns dict(states, transitions, impl_states, impl_edges, max_depth, violations,
    counters, capped)."""
    Real = RealAvdtp if proto == 'avdtp' else RealAvctp
    Ref = RefAvdtp if proto == 'avdtp' else (RefAvctpPid if proto == 'avctp_pid' else RefAvctp)
    alpha = alphabet(proto, msgs)
    keys = [m['key'] for m in msgs]
    nfr = [len(m['frags']) for m in msgs]

    def replay(hist):
        real = Real()
        refs = [Ref(p) for p in POLICIES]
        for tok_i in hist:
            pdu = alpha[tok_i][1]
            real.feed(pdu)
            for r in refs:
                r.feed(pdu)
        return real, refs

    real0, refs0 = replay(())
    start_key = (real0.canon(), None, tuple(r.canon() for r in refs0))
    seen = {start_key}
    frontier = [((), None)]  # (history as token indexes, run progress)
    impl_states = {real0.canon()}
    impl_edges = set()
    transitions = 0
    viol = _FirstPerSignature()  # (kind, signature-dict, message, history), first (= shortest) per signature
    counters = {'expected_deliveries': 0, 'delivered_ok': 0, 'tolerated_nonintact_delivery': 0, 'excused_by_reference': 0,
                'pdu_raised': 0, 'deliveries_total': 0}
    exc_names = set()
    capped = False
    max_depth = 0
    for d in range(depth):
        nxt = []
        for hist, run in frontier:
            # build(hist): replay the history once on fresh objects, then branch from a snapshot of
            # their complete attribute dictionaries (all attribute values are immutable)
            real, refs = replay(hist)
            snap_real = dict(vars(real.asm))
            snap_refs = [r.cur for r in refs]
            for ti, (tok, pdu) in enumerate(alpha):
                vars(real.asm).clear()
                # mutable attribute values (a list of fragments, a bytearray) are copied for every branch
                vars(real.asm).update({k: (copy.deepcopy(v) if isinstance(v, (list, bytearray, dict, set)) else v) for k, v in snap_real.items()})
                for r, c in zip(refs, snap_refs):
                    r.cur = c
                before = real.canon()
                got, exc = real.feed(pdu)
                ref_out = [r.feed(pdu) for r in refs]
                after = real.canon()
                transitions += 1
                impl_states.add(after)
                impl_edges.add((before, tok, after))
                if exc:
                    counters['pdu_raised'] += 1
                    exc_names.add(exc)
                # --- oracle -------------------------------------------------
                expected = None
                new_run = None
                if tok[0] == 'f':
                    m, k = tok[1], tok[2]
                    if k == 0:
                        if nfr[m] == 1:
                            expected = m
                        else:
                            new_run = (m, 1)
                    elif run == (m, k):
                        if k + 1 == nfr[m]:
                            expected = m
                        else:
                            new_run = (m, k + 1)
                h2 = hist + (ti,)
                counters['deliveries_total'] += len(got)
                if expected is not None:
                    counters['expected_deliveries'] += 1
                    if got == [keys[expected]]:
                        counters['delivered_ok'] += 1
                    else:
                        # where did the run start, and what preceded it?
                        start = len(h2) - nfr[expected]
                        alone = Real()  # NB: separate object, `real` is still needed below
                        alone_ok = False
                        for p in msgs[expected]['frags']:
                            o, _ = alone.feed(p)
                            alone_ok = alone_ok or (o == [keys[expected]])
                        ctx = context_class(Ref, [alpha[i][1] for i in h2[:start]]) if alone_ok else 'fresh_assembler'
                        what = 'nothing' if not got else ('a different message' if len(got) == 1 else f'{len(got)} messages')
                        viol.append((
                            'intact_lost',
                            {'proto': proto, 'kind': 'intact_message_not_delivered', 'context': ctx,
                             'fragments': 'single' if nfr[expected] == 1 else 'fragmented'},
                            f'{proto} assembler: message {expected} ({len(keys[expected][-1])} payload bytes, {nfr[expected]} packets) arrived '
                            f'intact and in order ({ctx}) but the assembler delivered {what}'
                            + (f' (on_pdu raised {exc})' if exc else ''),
                            h2,
                        ))
                else:
                    for g in got:
                        if g in keys:
                            counters['tolerated_nonintact_delivery'] += 1
                        elif any(g in ro for ro in ref_out):
                            counters['excused_by_reference'] += 1
                        else:
                            own = [m for m in msgs if m['key'][0] == g[0]]
                            hdr = (3, 1) if proto == 'avdtp' else (4, 1)
                            parts = [] if not own else [f[hdr[0]:] if i == 0 else f[hdr[1]:] for i, f in enumerate(own[0]['frags'])]
                            cls = content_class(parts, g[-1]) if len(own) == 1 and len(parts) > 1 else 'foreign_bytes_included'
                            # the pdu just fed completed the message, so look at the state before it reset
                            ign = ignored_since_initial(Real, Ref, [alpha[i][1] for i in hist]) > 0
                            viol.append((
                                'corrupt_delivered',
                                {'proto': proto, 'kind': 'message_from_broken_sequence_delivered', 'delivered': cls,
                                 'after_ignored_packets': ign},
                                f'{proto} assembler delivered a message that no peer sent ({len(g[-1])} payload bytes, label {g[0]}: {cls}'
                                f'{", after packets that belong to no message" if ign else ""}) out of a broken fragment sequence; '
                                f'no reference policy delivers it',
                                h2,
                            ))
                    if len(got) > 1:
                        viol.append(('multi_delivery', {'proto': proto, 'kind': 'several_messages_from_one_pdu'},
                                     f'{proto} assembler delivered {len(got)} messages for one PDU', h2))
                key = (after, new_run, tuple(r.canon() for r in refs))
                if key not in seen:
                    if max_states is not None and len(seen) >= max_states:
                        capped = True
                        continue
                    seen.add(key)
                    nxt.append((h2, new_run))
                    max_depth = d + 1
        frontier = nxt
        if not frontier:
            break
    return {
        'search_states': len(seen),
        'transitions': transitions,
        'impl_states': impl_states,
        'impl_edges': impl_edges,
        'max_depth': max_depth,
        'violations': viol.items,
        'violation_instances': viol.instances,
        'counters': counters,
        'exceptions': exc_names,
        'capped': capped,
        'alphabet': [list(t) for t, _ in alpha],
        'unexpanded_frontier': len(frontier),
    }
