"""C09 test bed: one central (device 0) connected to 1 or 2 peripherals, L2CAP
servers of every kind on every device, a script interpreter, the reference
model (which channel halves the script says are open), the table oracle and the
link-cut injector.

Vocabulary
  link L (1..n)  : the LE connection between device 0 and device L
  side 'c' / 'p' : device 0 / the peripheral of that link
  record         : one logical channel; it has a client half (at the initiator) and a
                   server half (at the responder); each half = (real channel object, open?)
  rec id         : position of the channel in the order in which an ideal run creates channels
                   (an Enhanced open of count 2 creates two consecutive records)

Script ops (JSON-able lists)
  ['open', kind, link, side, variant]   kind 'le' (variant = PSM index 0/1), 'ec' (variant = count 1/2),
                                         'cl' (variant 0); side = initiator
  ['refused', kind, link, side]         open towards a PSM nobody serves
  ['cancel', kind, link, side, variant, at]
                                        the open is started as a task and the CALLER cancels that task just before
                                        the at-th message (counted from the start of the op) is delivered; when the
                                        open has completed by then it is an ordinary open.  Afterwards the peer
                                        aborts any LE/enhanced server half it was left with (its own clean-up: such a
                                        half would make it refuse, legitimately, the re-used source CID); a classic
                                        server half is left alone and modelled as open on the peer only
  ['close', rec, by]                    by 'client' | 'server'   (orderly disconnect by that half)
  ['abort', rec, first]                 channel.abort() on the `first` half, then on the other half
  ['drain', rec, writer]                writer half writes more than its credits allow, awaits drain()
  ['par', op, op, ...]                  the sub-ops are started together and awaited together
"""
from __future__ import annotations

import asyncio

from .devices import World

LE_PSMS = (0x80, 0x81)
LE_PSM_UNSERVED = 0x8F
CL_PSM = 0x1001
CL_PSM_UNSERVED = 0x1003
# small LE parameters so that a 150-byte write needs several credit round trips
LE_MTU, LE_MPS, LE_CREDITS = 64, 23, 2
DRAIN_BYTES = 150
OTHER = {'c': 'p', 'p': 'c'}


class Half:
    __slots__ = ('obj', 'open', 'closed_by')

    def __init__(self, obj):
        self.obj = obj
        self.open = True
        self.closed_by = None


class Rec:
    def __init__(self, rid, kind, link, init):
        self.rid = rid
        self.kind = kind
        self.link = link
        self.init = init  # side of the client half
        self.halves = {}  # side -> Half

    def role(self, side):
        return 'client' if side == self.init else 'server'

    def side_of(self, role):
        return self.init if role == 'client' else OTHER[self.init]


class OpRun:
    """One started simple op."""

    def __init__(self, op, link, side, what, rec=None):
        self.op = op
        self.link = link
        self.side = side  # side that issued it
        self.what = what  # 'connect' | 'disconnect' | 'drain' | 'abort'
        self.rec = rec
        self.task = None
        self.started_after_cut = False
        self.par = None  # None | 'same_link' | 'other_link'
        self.rids = []  # rec ids an open would create


class Bed:
    def __init__(self, links=1, seed=0):
        self.nlinks = links
        self.w = World(links + 1, seed=seed)
        self.viol = []  # (check, signature, message)
        self.recs = {}  # rid -> Rec (only channels that really came to exist, either half)
        self.next_rid = 0
        self.orphans = []  # Recs with a server half only (client never got its channel)
        self.runs = []  # every OpRun
        self.msgs = 0
        self.allmsgs = 0
        self.cancel_req = None  # (OpRun, absolute message index)
        self.counting = False
        self.cut = None
        self.cut_done = False
        self.cut_at_step = None
        self.dead = {}  # (link, side) -> True once that side saw the disconnection
        self.obs = {}  # link -> [observation per op on that link]
        self.closed_any = {}  # link -> a channel was closed on it earlier
        self.fresh = set()  # links re-established after a cut
        self.incoming = {}

    # ------------------------------------------------------------------ setup
    def __enter__(self):
        from bumble import l2cap

        self.l2cap = l2cap
        w = self.w
        w.__enter__()
        w.power_on()
        self.conn = {}
        for L in range(1, self.nlinks + 1):
            self._connect(L)
        for i, d in enumerate(w.devices):
            self.incoming[i] = []
            for psm in LE_PSMS:
                d.create_l2cap_server(
                    l2cap.LeCreditBasedChannelSpec(psm=psm, mtu=LE_MTU, mps=LE_MPS, max_credits=LE_CREDITS),
                    handler=lambda ch, i=i: self._on_incoming(i, ch),
                )
            d.create_l2cap_server(l2cap.ClassicChannelSpec(psm=CL_PSM), handler=lambda ch, i=i: self._on_incoming(i, ch))
        w.loop.collect_exceptions()
        prev = w.loop.on_step

        def on_step(handle):
            if w.loop.classify(handle) is not None:
                if self.cancel_req is not None and self.allmsgs == self.cancel_req[1]:
                    r = self.cancel_req[0]
                    self.cancel_req = None
                    if not r.task.done():
                        r.cancel_sent = True
                        r.task.cancel()
                self.allmsgs += 1
                if self.counting:
                    if self.cut is not None and not self.cut_done and self.msgs == self.cut['at']:
                        self._inject_cut()
                    self.msgs += 1
            if prev:
                prev(handle)

        w.loop.on_step = on_step
        return self

    def __exit__(self, *a):
        return self.w.__exit__(*a)

    def _connect(self, L):
        cc, pc = self.w.connect_le(0, L)
        self.conn[L] = {'c': cc, 'p': pc}
        self.dead[(L, 'c')] = False
        self.dead[(L, 'p')] = False
        cc.on('disconnection', lambda reason, L=L: self.dead.__setitem__((L, 'c'), True))
        pc.on('disconnection', lambda reason, L=L: self.dead.__setitem__((L, 'p'), True))

    def _on_incoming(self, dev, ch):
        ch.sink = lambda data: None
        self.incoming[dev].append(ch)

    def dev_index(self, L, side):
        return 0 if side == 'c' else L

    def device(self, L, side):
        return self.w.devices[self.dev_index(L, side)]

    def manager(self, L, side):
        return self.device(L, side).l2cap_channel_manager

    def _inject_cut(self):
        self.cut_done = True
        self.cut_at_step = self.w.loop.steps
        c = self.conn[self.cut['link']][self.cut['side']]

        async def go():
            try:
                await c.disconnect()
            except BaseException:  # noqa
                pass

        self.w.loop.create_task(go())

    def add_violation(self, check, sig, msg):
        for c, s, _ in self.viol:
            if c == check and s == sig:
                return
        self.viol.append((check, sig, msg))

    # ------------------------------------------------------------ op coroutines
    def _le_spec(self, psm):
        return self.l2cap.LeCreditBasedChannelSpec(psm=psm, mtu=LE_MTU, mps=LE_MPS, max_credits=LE_CREDITS)

    async def _co_open(self, kind, L, side, variant, served=True):
        conn = self.conn[L][side]
        if kind == 'le':
            psm = LE_PSMS[variant] if served else LE_PSM_UNSERVED
            return [await conn.create_l2cap_channel(self._le_spec(psm))]
        if kind == 'ec':
            psm = LE_PSMS[0] if served else LE_PSM_UNSERVED
            return list(await self.manager(L, side).create_enhanced_credit_based_channels(conn, self._le_spec(psm), variant if served else 1))
        if kind == 'cl':
            psm = CL_PSM if served else CL_PSM_UNSERVED
            return [await conn.create_l2cap_channel(self.l2cap.ClassicChannelSpec(psm=psm))]
        raise ValueError(kind)

    async def _co_drain(self, ch):
        ch.write(bytes(DRAIN_BYTES))
        await ch.drain()

    # ------------------------------------------------------------------ running
    def _start(self, op, par=None):
        """Create the OpRun(s) for a simple op; returns list (empty when skipped)."""
        loop = self.w.loop
        k = op[0]
        if k in ('open', 'refused', 'cancel'):
            kind, L, side = op[1], op[2], op[3]
            variant = op[4] if k != 'refused' else 0
            r = OpRun(op, L, side, 'connect')
            r.cancel_sent = False
            if k != 'refused':
                n = variant if kind == 'ec' else 1
                r.rids = list(range(self.next_rid, self.next_rid + n))
                self.next_rid += n
            if self.dead[(L, side)]:
                return []
            r.mark = len(self.incoming[self.dev_index(L, OTHER[side])])
            trigger = op[5].get('on_close_of') if (k == 'open' and len(op) > 5 and isinstance(op[5], dict)) else None
            if trigger is not None and trigger in self.recs and self.recs[trigger].halves.get(side) is not None:
                # the application opens the new channel from the 'close' handler of an older one (at the very moment its
                # identifier becomes free, while frames of the old channel may still be in flight)
                old = self.recs[trigger].halves[side].obj

                async def open_when_closed():
                    closed = loop.create_future()
                    old.once('close', lambda: closed.done() or closed.set_result(None))
                    await closed
                    return await self._co_open(kind, L, side, variant)

                r.task = loop.create_task(open_when_closed())
            else:
                # ['cancel', ..., at, {'refused': True}]: the open that is given up is one the peer refuses (unserved PSM)
                r.unserved = k == 'refused' or (k == 'cancel' and len(op) > 6 and bool(op[6].get('refused')))
                r.task = loop.create_task(self._co_open(kind, L, side, variant, served=not r.unserved))
            if k == 'cancel':
                self.cancel_req = (r, self.allmsgs + op[5])
        elif k in ('close', 'drain'):
            rec = self.recs.get(op[1])
            if rec is None:
                return []
            side = rec.side_of(op[2])
            half = rec.halves.get(side)
            if half is None or not half.open or self.dead[(rec.link, side)]:
                return []
            r = OpRun(op, rec.link, side, 'disconnect' if k == 'close' else 'drain', rec)
            if k == 'drain' and rec.kind == 'cl':
                return []
            r.task = loop.create_task(half.obj.disconnect() if k == 'close' else self._co_drain(half.obj))
        elif k == 'abort':
            rec = self.recs.get(op[1])
            if rec is None:
                return []
            first = rec.side_of(op[2])
            r = OpRun(op, rec.link, first, 'abort', rec)
            if self.dead[(rec.link, first)]:
                return []

            async def go():
                for s in (first, OTHER[first]):
                    h = rec.halves.get(s)
                    if h is not None:
                        h.obj.abort()

            r.task = loop.create_task(go())
        else:
            raise ValueError(op)
        r.par = par
        r.started_after_cut = self.cut_done
        self.runs.append(r)
        return [r]

    def run_op(self, op, horizon=5.0):
        loop = self.w.loop
        if op[0] == 'par':
            subs = op[1:]
            links = set()
            for o in subs:
                links |= self._links_of(o)
            par = 'other_link' if len(links) > 1 else 'same_link'
            # rec ids are assigned in sub-op order whether or not a sub-op is skipped
            started = []
            for o in subs:
                started += self._start(o, par)
        else:
            started = self._start(op)
        if started:
            loop.run_until(lambda: all(r.task.done() for r in started), horizon=loop.time() + horizon, max_steps=100000)
        loop.run_quiescent(max_steps=100000)
        for r in started:
            self._account(r)
        return started

    def _links_of(self, o):
        if o[0] in ('open', 'refused', 'cancel'):
            return {o[2]}
        rec = self.recs.get(o[1])
        return {rec.link} if rec is not None else set()

    # -------------------------------------------------------------- accounting
    def link_cut(self, L):
        return self.cut is not None and self.cut_done and self.cut['link'] == L and L not in self.fresh

    def _err_name(self, e):
        from bumble.core import ProtocolError

        if isinstance(e, asyncio.CancelledError):
            return 'CancelledError'
        if isinstance(e, ProtocolError):
            return f'{type(e).__name__}:{e.error_name or e.error_code}'
        return f'{type(e).__name__}:{str(e)[:60]}'

    def _outcome(self, r):
        t = r.task
        if not t.done():
            return ('pending', None)
        if t.cancelled():
            return ('error', 'CancelledError')
        e = t.exception()
        if e is not None:
            return ('error', self._err_name(e))
        return ('ok', t.result())

    def _when(self, r):
        if r.link in self.fresh:
            return 'fresh_link_after_cut'
        if r.par:
            return 'concurrent_' + r.par
        if self.closed_any.get(r.link):
            return 'after_close'
        return 'plain'

    def _account(self, r):
        """Compare the outcome of one op with what the script demands, update the model."""
        L = r.link
        cut_here = self.link_cut(L)
        status, val = self._outcome(r)
        ob = [r.op[0], r.op[1] if r.op[0] in ('open', 'refused', 'cancel') else r.rec.kind, status if status != 'error' else val]
        k = r.op[0]
        if k == 'cancel':
            self.cancel_req = None
            if status == 'error' and val == 'CancelledError' and r.cancel_sent:
                self._account_cancelled(r)
                self.obs.setdefault(L, []).append(ob)
                return
            # the open completed before the caller gave up (or failed by itself): judged as an open / a refused open
            k = 'refused' if getattr(r, 'unserved', False) else 'open'
        if status == 'pending':
            if not cut_here:
                self.add_violation(
                    'op_hang',
                    {'wait': r.what, 'kind': ob[1], 'when': self._when(r)},
                    f'{r.op}: the awaited {r.what} ({self._role(r)} side) never completed although its link is up ({self._ctx()})',
                )
            # with a cut: judged at the horizon (waiter_hang)
        if k == 'open':
            resp = OTHER[r.side]
            new_in = [ch for ch in self.incoming[self.dev_index(L, resp)][r.mark:] if ch.connection is self.conn[L][resp] and not getattr(ch, '_c09_claimed', False)]
            chans = val if status == 'ok' else []
            for rid, ch in zip(r.rids, chans):
                rec = Rec(rid, r.op[1], L, r.side)
                rec.halves[r.side] = Half(ch)
                ch.sink = lambda data: None
                for s in new_in:
                    if s.destination_cid == ch.source_cid and not getattr(s, '_c09_claimed', False):
                        s._c09_claimed = True
                        rec.halves[resp] = Half(s)
                        break
                self.recs[rid] = rec
                ob.append([ch.source_cid, ch.destination_cid])
                if resp not in rec.halves and not cut_here:
                    self.add_violation('no_server_half', {'kind': rec.kind}, f'{r.op}: client got a channel but no server-side channel with destination CID {ch.source_cid:#x} was delivered to the server handler')
            if status == 'error' and not cut_here:
                blk = self._blocker(r, val)
                if blk:
                    sig = {'error': val, 'cause': blk[0]}
                    if blk[1]:
                        sig['stale_closed_by'] = blk[1]
                else:
                    sig = {'kind': r.op[1], 'error': val, 'when': self._when(r)}
                self.add_violation('open_failed', sig, f'{r.op} raised {val} ({self._ctx()}){" — " + blk[0] + (" (channel ended by " + blk[1] + ")" if blk[1] else "") if blk else ""}')
            if status == 'ok' and len(chans) != len(r.rids):
                self.add_violation('open_count', {'kind': r.op[1]}, f'{r.op}: {len(chans)} channels returned, {len(r.rids)} requested')
            # server-side channels nobody claims become server-only records in collect_orphans()
        elif k == 'refused':
            if status == 'ok':
                self.add_violation('refused_open_succeeded', {'kind': r.op[1]}, f'{r.op}: open towards an unserved PSM returned a channel')
                for ch in val:
                    try:
                        ch.abort()
                    except Exception:
                        pass
            elif status == 'error' and not cut_here:
                from bumble.core import ProtocolError

                e = None if r.task.cancelled() else r.task.exception()
                if not isinstance(e, ProtocolError):
                    self.add_violation('open_failed', {'kind': r.op[1], 'error': val, 'when': self._when(r)}, f'{r.op}: expected a protocol refusal, got {val} ({self._ctx()})')
        elif k == 'close':
            rec = r.rec
            if status == 'ok' or (status == 'error' and cut_here):
                pass
            elif status == 'error':
                self.add_violation('close_failed', {'kind': rec.kind, 'role': self._role(r), 'error': val, 'when': self._when(r)}, f'{r.op} raised {val} ({self._ctx()})')
            for s, h in rec.halves.items():
                if h.open:
                    h.open = False
                    h.closed_by = 'close'
            self.closed_any[L] = True
        elif k == 'abort':
            rec = r.rec
            if status == 'error' and not cut_here:
                self.add_violation('abort_failed', {'kind': rec.kind, 'error': val}, f'{r.op} raised {val}')
            for s, h in rec.halves.items():
                if h.open:
                    h.open = False
                    h.closed_by = 'abort'
            self.closed_any[L] = True
        elif k == 'drain':
            if status == 'error' and not cut_here:
                self.add_violation('drain_failed', {'kind': r.rec.kind, 'error': val}, f'{r.op} raised {val}')
        self.obs.setdefault(L, []).append(ob)

    def _account_cancelled(self, r):
        """The caller gave up on a pending open.  Its own side must forget the channel; what the peer was
        left with is modelled (classic) or cleaned up by the peer itself (LE kinds)."""
        L, side, kind = r.link, r.side, r.op[1]
        resp = OTHER[side]
        known = {id(h.obj) for rec in list(self.recs.values()) + self.orphans for h in rec.halves.values()}
        m = self.manager(L, side)
        h = self.conn[L][side].handle
        for table in (m.channels, m.le_coc_channels):
            for obj in list((table.get(h) or {}).values()):
                if id(obj) not in known:
                    known.add(id(obj))
                    rec = Rec(-2, kind, L, side)
                    rec.halves[side] = Half(obj)
                    rec.halves[side].open = False
                    rec.halves[side].closed_by = 'cancel'
                    self.orphans.append(rec)
        for ch in self.incoming[self.dev_index(L, resp)][r.mark:]:
            if ch.connection is not self.conn[L][resp] or getattr(ch, '_c09_claimed', False):
                continue
            ch._c09_claimed = True
            rec = Rec(-1, kind, L, side)
            rec.halves[resp] = Half(ch)
            self.orphans.append(rec)
            if kind != 'cl':
                ch.abort()
                rec.halves[resp].open = False
                rec.halves[resp].closed_by = 'abort'
        self.closed_any[L] = True

    def _role(self, r):
        if r.rec is not None:
            return r.rec.role(r.side)
        return 'client'

    def _ctx(self):
        return f'cut={self.cut}' if self.cut else 'no fault'

    def _blocker(self, r, err):
        """Diagnosis only (it selects the signature, not the verdict): when the responder refused the open
        because the source CID is 'already allocated', say which entry of its LE table is to blame —
        one of a channel that is no longer open, or one filed under the wrong key."""
        if 'SOURCE_CID_ALREADY_ALLOCATED' not in err:
            return None
        L, resp = r.link, OTHER[r.side]
        tab = self.manager(L, resp).le_coc_channels.get(self.conn[L][resp].handle) or {}
        open_objs = {id(h.obj) for rec in list(self.recs.values()) + self.orphans for h in rec.halves.values() if h.open}
        # server halves delivered during this very (concurrent) operation are accounted a moment later
        open_objs |= {id(ch) for lst in self.incoming.values() for ch in lst if not getattr(ch, '_c09_claimed', False)}
        for key in sorted(tab):
            if id(tab[key]) not in open_objs:
                return ('stale_le_coc_entry_at_responder', self._describe(tab[key])[2])
        for key in sorted(tab):
            if key != tab[key].destination_cid:
                return ('misfiled_le_coc_entry_at_responder', None)
        return None

    # ------------------------------------------------------------- the oracle
    def collect_orphans(self):
        for dev, lst in self.incoming.items():
            for ch in lst:
                if getattr(ch, '_c09_claimed', False):
                    continue
                ch._c09_claimed = True
                for L in range(1, self.nlinks + 1):
                    for side in ('c', 'p'):
                        if self.dev_index(L, side) == dev and ch.connection is self.conn[L][side]:
                            rec = Rec(-1, 'cl' if isinstance(ch, self.l2cap.ClassicChannel) else 'le', L, OTHER[side])
                            rec.halves[side] = Half(ch)
                            self.orphans.append(rec)

    def pending_on(self, L):
        return any(r.link == L and not r.task.done() for r in self.runs)

    def open_halves(self, L, side):
        out = []
        for rec in list(self.recs.values()) + self.orphans:
            if rec.link == L:
                h = rec.halves.get(side)
                if h is not None and h.open:
                    out.append((rec, h))
        return out

    def _describe(self, obj):
        for rec in list(self.recs.values()) + self.orphans:
            for s, h in rec.halves.items():
                if h.obj is obj:
                    return rec.kind, rec.role(s), (h.closed_by if not h.open else 'open')
        return ('cl' if isinstance(obj, self.l2cap.ClassicChannel) else 'le?'), 'unknown', 'never_returned'

    def check_tables(self, L, phase, link_dead=False):
        """Tables of both managers for link L against the model."""
        l2cap = self.l2cap
        for side in ('c', 'p'):
            m = self.manager(L, side)
            h = self.conn[L][side].handle
            exp = [] if link_dead else self.open_halves(L, side)
            exp_objs = {id(hf.obj): (rec, hf) for rec, hf in exp}
            for tname, table, keyattr, kinds in (
                ('channels', m.channels, 'source_cid', ('le', 'ec', 'cl')),
                ('le_coc_channels', m.le_coc_channels, 'destination_cid', ('le', 'ec')),
            ):
                act = table.get(h) or {}
                seen = set()
                for key, obj in act.items():
                    if id(obj) in exp_objs and exp_objs[id(obj)][0].kind in kinds:
                        seen.add(id(obj))
                        rec = exp_objs[id(obj)][0]
                        want = getattr(obj, keyattr)
                        if key != want:
                            self.add_violation(
                                'table_wrong_key',
                                {'table': tname, 'kind': rec.kind, 'role': rec.role(side)},
                                f'[{phase}] link {L} side {side}: {tname} holds open {rec.kind} channel (source {obj.source_cid:#x}, destination {obj.destination_cid:#x}) under key {key:#x}, its {keyattr} is {want:#x}',
                            )
                    else:
                        kind, role, how = self._describe(obj)
                        self.add_violation(
                            'table_stale',
                            {'table': tname, 'kind': kind, 'role': role, 'closed_by': 'link_cut' if link_dead and how == 'open' else how},
                            f'[{phase}] link {L} side {side}: {tname}[{h:#x}][{key:#x}] still holds a {kind} channel ({role} half) that is not open (closed by: {how}{", link is gone" if link_dead else ""})',
                        )
                for rec, hf in exp:
                    if rec.kind in kinds and id(hf.obj) not in seen:
                        self.add_violation(
                            'table_missing',
                            {'table': tname, 'kind': rec.kind, 'role': rec.role(side)},
                            f'[{phase}] link {L} side {side}: open {rec.kind} channel (source {hf.obj.source_cid:#x}, destination {hf.obj.destination_cid:#x}) is not in {tname}',
                        )
            # identifiers unique per connection, in the dynamic range, states agree with the script
            srcs = {}
            for rec, hf in exp:
                o = hf.obj
                if o.source_cid in srcs:
                    self.add_violation('cid_not_unique', {'kind': rec.kind, 'other': srcs[o.source_cid]}, f'[{phase}] link {L} side {side}: two open channels share source CID {o.source_cid:#x}')
                srcs[o.source_cid] = rec.kind
                if not (0x40 <= o.source_cid <= (0xFFFF if rec.kind == 'cl' else 0x7F)):
                    self.add_violation('cid_out_of_range', {'kind': rec.kind}, f'[{phase}] source CID {o.source_cid:#x} outside the dynamic range')
                ok = o.state == (l2cap.ClassicChannel.State.OPEN if rec.kind == 'cl' else l2cap.LeCreditBasedChannel.State.CONNECTED)
                if not ok and rec.rid >= 0:
                    self.add_violation(
                        'open_channel_not_open',
                        {'kind': rec.kind, 'role': rec.role(side), 'state': o.state.name},
                        f'[{phase}] link {L} side {side}: {rec.kind} channel the script left open reports state {o.state.name}',
                    )
        if not link_dead:
            for rec in self.recs.values():
                if rec.link == L and len(rec.halves) == 2:
                    a, b = rec.halves['c'], rec.halves['p']
                    if a.open and b.open and (a.obj.source_cid != b.obj.destination_cid or a.obj.destination_cid != b.obj.source_cid):
                        self.add_violation('cid_mismatch', {'kind': rec.kind}, f'[{phase}] link {L}: the two halves disagree about CIDs: {a.obj.source_cid:#x}->{a.obj.destination_cid:#x} vs {b.obj.source_cid:#x}->{b.obj.destination_cid:#x}')

    def check_closed_states(self, phase):
        l2cap = self.l2cap
        for rec in list(self.recs.values()):
            for s, h in rec.halves.items():
                if h.open:
                    continue
                o = h.obj
                still = o.state == (l2cap.ClassicChannel.State.OPEN if rec.kind == 'cl' else l2cap.LeCreditBasedChannel.State.CONNECTED)
                if still:
                    self.add_violation(
                        'closed_channel_still_open',
                        {'kind': rec.kind, 'role': rec.role(s), 'closed_by': h.closed_by},
                        f'[{phase}] link {rec.link} side {s}: {rec.kind} channel closed by {h.closed_by} still reports {o.state.name}',
                    )

    def check_all(self, phase):
        self.collect_orphans()
        for L in range(1, self.nlinks + 1):
            if self.pending_on(L):
                continue
            if self.link_cut(L):
                continue
            self.check_tables(L, phase)
        self.check_closed_states(phase)

    # ------------------------------------------------------ after the script
    def finish_cut(self):
        """Called after the last op.  Returns False when the cut index is beyond the message log."""
        loop = self.w.loop
        if self.cut is not None and not self.cut_done:
            if self.msgs == self.cut['at']:
                self._inject_cut()
            else:
                return False
        self.counting = False
        loop.advance(30.0, max_steps=200000)
        loop.run_quiescent(max_steps=100000)
        if self.cut is None:
            return True
        L = self.cut['link']
        for side in ('c', 'p'):
            if not self.dead[(L, side)]:
                self.add_violation('harness_cut_failed', {'side': side}, f'link {L} side {side} never saw the disconnection')
        # every waiter is done
        for r in self.runs:
            if r.link == L and not r.task.done():
                self.add_violation(
                    'waiter_hang',
                    {'wait': r.what, 'kind': r.op[1] if r.op[0] in ('open', 'refused', 'cancel') else r.rec.kind},
                    f'{r.op}: awaited {r.what} ({self._role(r)} side) still pending 30 s after link {L} was disconnected ({self.cut}, issued {"after" if r.started_after_cut else "before"} the disconnect was requested)',
                )
                r.task.cancel()
        loop.run_quiescent(max_steps=100000)
        # model: everything on the cut link is closed
        self.collect_orphans()
        for rec in list(self.recs.values()) + self.orphans:
            if rec.link == L:
                for h in rec.halves.values():
                    if h.open:
                        h.open = False
                        h.closed_by = 'link_cut'
        self.check_tables(L, 'after_cut', link_dead=True)
        self.check_closed_states('after_cut')
        return True

    def interrupted_sides(self):
        """Sides of the cut link that had a request in flight when the link went away."""
        out = set()
        if self.cut is None:
            return out
        for r in self.runs:
            if r.link != self.cut['link'] or r.what == 'abort':
                continue
            status, _ = self._outcome(r)
            if status != 'ok' or r.started_after_cut:
                out.add(r.side)
                out.add(OTHER[r.side])
        return out

    def reconnect(self, L):
        self._connect(L)
        self.fresh.add(L)
        self.closed_any[L] = False

    def epilogue(self, L, opens, probes=0, probe_sides=()):
        """On a live link: `probes` refused LE opens per probe side (walks the signalling identifiers),
        then the given opens, then close everything; tables must follow."""
        for side in probe_sides:
            for _ in range(probes):
                self.run_op(['refused', 'le', L, side])
        for kind, side in opens:
            self.run_op(['open', kind, L, side, 1 if kind == 'ec' else 0])
        self.check_tables(L, 'epilogue_opened')
        i = 0
        for rec in list(self.recs.values()):
            if rec.link != L:
                continue
            if any(h.open for h in rec.halves.values()) and len(rec.halves) == 2:
                self.run_op(['close', rec.rid, ('client', 'server')[i % 2]])
                i += 1
        self.check_tables(L, 'epilogue_closed')
        self.check_closed_states('epilogue_closed')
