"""C18 / avdtp, avctp_avrcp, rtp.

avdtp       : every registered signalling message class, service capabilities incl. the
              A2DP codec information elements, end-point info, the single-packet
              signalling header (Protocol.send_message -> MessageAssembler).
avctp_avrcp : AVCTP single-packet header, AV/C frames (generic, vendor dependent, pass
              through), every registered AVRCP command / response / event class,
              browsable items, the AVRCP PDU header.
rtp         : media packet header incl. every CSRC count.
"""
from __future__ import annotations

import functools
import struct

from . import c18_common as cm
from .c18_common import Adapter, Rec, Slot


class StubChannel:
    """Stands in for the L2CAP channel of a signalling Protocol object: records writes."""

    EVENT_OPEN = 'open'
    EVENT_CLOSE = 'close'

    def __init__(self, mtu=65535):
        self.peer_mtu = mtu
        self.mtu = mtu
        self.sink = None
        self.sent: list[bytes] = []

    def on(self, *a, **k):
        pass

    def write(self, data):
        self.sent.append(bytes(data))

    send_pdu = write


# ===========================================================================
# A2DP codec information elements (A2DP spec 4.3.2 SBC, 4.5.2 AAC, 4.7.2 vendor)
# ===========================================================================
def ref_sbc(sf, cm_, bl, sb, am, lo, hi) -> bytes:
    return bytes([(sf << 4) | cm_, (bl << 4) | (sb << 2) | am, lo, hi])


def ref_aac(ot, sf, ch, vbr, br) -> bytes:
    return bytes([ot, (sf >> 4) & 0xFF, ((sf & 0xF) << 4) | (ch << 2), (vbr << 7) | ((br >> 16) & 0x7F), (br >> 8) & 0xFF, br & 0xFF])


def check_codec_info(rec: Rec, quick: bool):
    from bumble import a2dp

    S = a2dp.SbcMediaCodecInformation
    A = a2dp.AacMediaCodecInformation
    V = a2dp.VendorSpecificMediaCodecInformation
    O = a2dp.OpusMediaCodecInformation

    def one(key, unit, make, ref, fields: dict, parse, at):
        case = {'unit': unit, 'at': at}
        try:
            obj = make()
            wire = bytes(obj)
            back = parse(ref)
            again = bytes(back)
        except Exception as e:
            return rec.bad(key, 'codec_info', {'unit': unit, 'how': f'exception:{cm.exc_name(e)}', 'at': at}, f'{unit} {fields}: {cm.exc_name(e)}: {e}', case)
        if wire != ref:
            return rec.bad(key, 'codec_info', {'unit': unit, 'how': 'serialised_differs_from_spec', 'at': at}, f'{unit} {fields}: {wire.hex()} spec {ref.hex()}', case)
        if type(back) is not type(obj):
            return rec.bad(key, 'codec_info', {'unit': unit, 'how': 'class', 'at': at}, f'{unit}: parsed as {type(back).__name__}', case)
        for f, v in fields.items():
            if getattr(back, f) != v:
                return rec.bad(key, 'codec_info', {'unit': unit, 'how': 'parsed_field_differs', 'field': f, 'at': at}, f'{unit} {fields}: parsed {f}={getattr(back, f)!r}', case)
        if again != ref:
            return rec.bad(key, 'codec_info', {'unit': unit, 'how': 'reserialised_bytes_differ', 'at': at}, f'{unit}: {again.hex()} != {ref.hex()}', case)
        rec.ok(key)

    # SBC: every combination of the five capability bit-fields, plus bit-pool boundaries
    n = 0
    step = 5 if quick else 1
    for sf in range(0, 16, 1):
        for chm in range(0, 16, step):
            for bl in range(0, 16, step):
                for sb in range(4):
                    for am in range(4):
                        f = dict(sampling_frequency=sf, channel_mode=chm, block_length=bl, subbands=sb, allocation_method=am, minimum_bitpool_value=2, maximum_bitpool_value=53)
                        n += 1
                        one(('sbc', sf, chm, bl, sb, am), 'SbcMediaCodecInformation',
                            lambda f=f: S(S.SamplingFrequency(f['sampling_frequency']), S.ChannelMode(f['channel_mode']), S.BlockLength(f['block_length']), S.Subbands(f['subbands']), S.AllocationMethod(f['allocation_method']), 2, 53),
                            ref_sbc(sf, chm, bl, sb, am, 2, 53), f, S.from_bytes, 'flags')
    for lo, hi in ((0, 0), (2, 250), (255, 255), (0x80, 0x7F)):
        f = dict(minimum_bitpool_value=lo, maximum_bitpool_value=hi)
        one(('sbc_bp', lo, hi), 'SbcMediaCodecInformation', lambda lo=lo, hi=hi: S(S.SamplingFrequency(2), S.ChannelMode(1), S.BlockLength(1), S.Subbands(1), S.AllocationMethod(1), lo, hi), ref_sbc(2, 1, 1, 1, 1, lo, hi), f, S.from_bytes, 'bitpool')
        n += 1
    # AAC
    ots = [0x80, 0x40, 0x20, 0x10, 0xF0, 0x00]
    sfs = [0, 1, 0x008, 0x010, 0x800, 0xFFF, 0x00F, 0xFF0]
    brs = [0, 1, 0xFF, 0x100, 0xFFFF, 0x10000, 0x7FFFFF]
    for ot in ots:
        for sf in sfs:
            for ch in range(4):
                for vbr in (0, 1):
                    for br in (brs if (ot == 0x80 and ch == 1) or not quick else brs[-1:]):
                        f = dict(object_type=ot, sampling_frequency=sf, channels=ch, vbr=vbr, bitrate=br)
                        n += 1
                        one(('aac', ot, sf, ch, vbr, br), 'AacMediaCodecInformation', lambda f=f: A(A.ObjectType(f['object_type']), A.SamplingFrequency(f['sampling_frequency']), A.Channels(f['channels']), f['vbr'], f['bitrate']), ref_aac(ot, sf, ch, vbr, br), f, A.from_bytes, 'fields')
    # vendor specific + Opus
    for vid in (0, 0xE0, 0xFFFF, 0x10000, 0xFFFFFFFF):
        for cid in (0, 1, 0xFF, 0x100, 0xFFFF):
            for ln in (0, 1, 7):
                val = rec.fill(ln, cid & 0xFF)
                f = dict(vendor_id=vid, codec_id=cid, value=val)
                n += 1
                one(('vendor', vid, cid, ln), 'VendorSpecificMediaCodecInformation', lambda f=f: V(f['vendor_id'], f['codec_id'], f['value']), struct.pack('<IH', vid, cid) + val, f, V.from_bytes, 'fields')
    for chm in range(8):
        for fs in range(4):
            for sfq in range(2):
                f = dict(channel_mode=chm, frame_size=fs, sampling_frequency=sfq)
                b = bytes([chm | (fs << 3) | (sfq << 7)])
                ref = struct.pack('<IH', 0xE0, 1) + b
                n += 1
                one(('opus', chm, fs, sfq), 'OpusMediaCodecInformation', lambda f=f: O(O.ChannelMode(f['channel_mode']), O.FrameSize(f['frame_size']), O.SamplingFrequency(f['sampling_frequency'])), ref, f, lambda d: a2dp.MediaCodecInformation.create(a2dp.CodecType.NON_A2DP, d), 'fields')
    rec.st.count('codec_info_cases', n)


# ===========================================================================
# AVDTP
# ===========================================================================
def cap_candidates(rec: Rec):
    """[(label, [ServiceCapabilities...], ref bytes)] - AVDTP 8.21 service capabilities."""
    from bumble import a2dp, avdtp

    SC = avdtp.ServiceCapabilities
    MC = avdtp.MediaCodecCapabilities
    S = a2dp.SbcMediaCodecInformation
    A = a2dp.AacMediaCodecInformation

    def gen(cat, data=b''):
        return SC(cat, data), bytes([cat, len(data)]) + data

    sbc = S(S.SamplingFrequency(0x3), S.ChannelMode(0xF), S.BlockLength(0xF), S.Subbands(3), S.AllocationMethod(3), 2, 53)
    sbc_ref = ref_sbc(3, 0xF, 0xF, 3, 3, 2, 53)
    aac = A(A.ObjectType(0x80), A.SamplingFrequency(0x018), A.Channels(1), 1, 256000)
    aac_ref = ref_aac(0x80, 0x018, 1, 1, 256000)
    vend = a2dp.VendorSpecificMediaCodecInformation(0x12345678, 0xABCD, b'\x01\x02\x03')
    vend_ref = struct.pack('<IH', 0x12345678, 0xABCD) + b'\x01\x02\x03'
    opus = a2dp.OpusMediaCodecInformation(a2dp.OpusMediaCodecInformation.ChannelMode(2), a2dp.OpusMediaCodecInformation.FrameSize(2), a2dp.OpusMediaCodecInformation.SamplingFrequency(1))
    opus_ref = struct.pack('<IH', 0xE0, 1) + bytes([2 | 2 << 3 | 1 << 7])

    def codec(ctype, info, info_ref):
        # media type AUDIO (0): the only one A2DP uses
        return MC(avdtp.MediaType.AUDIO, a2dp.CodecType(ctype), info), bytes([7, 2 + len(info_ref), 0x00, ctype]) + info_ref

    mt = gen(1)
    rp = gen(2)
    cp = gen(4, b'\x02\x00')
    dr = gen(8)
    big = gen(4, rec.fill(255, 4))
    unknown_cat = gen(0x7F, b'\x01')
    sets = [
        ('mt+sbc', [mt, codec(0, sbc, sbc_ref)]),
        ('none', []),
        ('mt', [mt]),
        ('mt+aac+cp+dr', [mt, codec(2, aac, aac_ref), cp, dr]),
        ('vendor', [mt, codec(0xFF, vend, vend_ref)]),
        ('opus', [codec(0xFF, opus, opus_ref), rp]),
        ('len255', [big, mt]),
        ('unknown_category', [unknown_cat]),
    ]
    return [(l, [o for o, _ in items], b''.join(r for _, r in items)) for l, items in sets]


def endpoint_candidates():
    from bumble import avdtp

    def ep(seid, in_use, mt, tsep):
        return avdtp.EndPointInfo(seid, in_use, avdtp.MediaType(mt), avdtp.StreamEndPointType(tsep)), bytes([seid << 2 | in_use << 1, mt << 4 | tsep << 3])

    sets = [
        ('one', [ep(1, 0, 0, 1)]),
        ('none', []),
        ('two', [ep(1, 1, 0, 0), ep(2, 0, 1, 1)]),
        ('edge', [ep(0x3F, 1, 2, 1), ep(0, 0, 0xF, 0), ep(0x20, 0, 0, 0)]),
    ]
    return [(l, [o for o, _ in items], b''.join(r for _, r in items)) for l, items in sets]


class AvdtpAdapter(Adapter):
    proto = 'avdtp'

    def classes(self):
        from bumble import avdtp

        out = []
        for sig, d in sorted(avdtp.Message.subclasses.items(), key=lambda kv: int(kv[0])):
            for mt, cls in sorted(d.items(), key=lambda kv: int(kv[0])):
                out.append(((int(sig), int(mt)), cls))
        return out

    def custom(self, cls, name, spec, rec):
        if name in ('acp_seid', 'int_seid'):
            return [(f'seid{v}', v, bytes([v << 2])) for v in (1, 0, 0x20, 0x3F)]
        if name == 'endpoints':
            return endpoint_candidates()
        if name == 'capabilities':
            return cap_candidates(rec)
        if name == 'acp_seids':
            return [(f'seids{len(l)}', l, bytes(s << 2 for s in l)) for l in ([1], [], [1, 2], [0x3F, 0, 0x20, 0x01])]
        if name == 'delay':
            return [(cm.lab(v), v, v.to_bytes(2, 'big')) for v in cm.U16]
        return None

    def encode(self, obj):
        return obj.payload

    def decode(self, key, cls, data):
        from bumble import avdtp

        return avdtp.Message.create(avdtp.SignalIdentifier(key[0]), avdtp.Message.MessageType(key[1]), data)


def check_avdtp_wire(rec: Rec):
    """Signalling header of a single packet: [label<<4 | packet type<<2 | message type,
    signal id] (AVDTP 8.4) through the real send path and the real assembler."""
    from bumble import avdtp

    ad = AvdtpAdapter()
    got = []
    asm = avdtp.MessageAssembler(lambda l, m: got.append((l, m)))  # one assembler for the whole run
    for (sig, mt), cls in rec.seq(ad.classes()):
        problems: list[str] = []
        slots = cm.build_slots(ad, (sig, mt), cls, rec, problems)
        if slots is None:
            continue
        values = {}
        body = b''
        for s in slots:
            values.update(s.cands[0][1])
            body += s.cands[0][2] or b''
        for label in rec.seq(range(16)):
            key = ('avdtp_wire', sig, mt, label)
            case = {'unit': 'avdtp_wire', 'sig': sig, 'mt': mt, 'label': label}
            try:
                ch = StubChannel()
                proto = avdtp.Protocol(ch)
                msg = cls(**values)
                proto.send_message(label, msg)
                ref = bytes([label << 4 | 0 << 2 | mt, sig]) + body
                got.clear()
                for pkt in ch.sent:
                    asm.on_pdu(pkt)
            except Exception as e:
                rec.bad(key, 'avdtp_wire', {'unit': 'avdtp_single_packet', 'how': f'exception:{cm.exc_name(e)}', 'cls': cls.__name__}, f'{cls.__name__} label {label}: {cm.exc_name(e)}: {e}', case)
                continue
            if ch.sent != [ref]:
                rec.bad(key, 'avdtp_wire', {'unit': 'avdtp_single_packet', 'how': 'header_bytes', 'cls': cls.__name__}, f'{cls.__name__} label {label}: sent {[p.hex() for p in ch.sent]} expected {ref.hex()}', case)
            elif len(got) != 1 or got[0][0] != label or type(got[0][1]) is not cls or got[0][1].payload != body:
                rec.bad(key, 'avdtp_wire', {'unit': 'avdtp_single_packet', 'how': 'reassembled_differs', 'cls': cls.__name__}, f'{cls.__name__} label {label}: assembler delivered {[(l, type(m).__name__) for l, m in got]}', case)
            else:
                # (whether the assembler is ready for the next message is judged by the next message - the same assembler
                # serves all 16 labels -, not by the values of its private fields)
                rec.ok(key)


def check_avdtp_misc(rec: Rec):
    from bumble import a2dp, avdtp

    # (signal, type) combinations without a registered class fall back to a generic
    # Message (commands / accepts) or Simple_Reject (rejects); the payload must survive
    combos = [(0x3F, 0, b'\x01\x02', 'generic'), (0x0E, 2, b'', 'generic'), (0x3F, 1, b'', 'generic'), (0x01, 1, b'', 'generic')]
    for sig in range(1, 14):
        if 3 not in avdtp.Message.subclasses.get(avdtp.SignalIdentifier(sig), {}) and sig != 0x0A:  # ABORT has no reject
            combos.append((sig, 3, b'\x19', 'Simple_Reject'))
    for sig, mt, payload, fb in rec.seq(combos):
        key = ('avdtp_generic', sig, mt)
        try:
            m = avdtp.Message.create(avdtp.SignalIdentifier(sig), avdtp.Message.MessageType(mt), payload)
            ok = m.payload == payload and int(m.signal_identifier) == sig and int(m.message_type) == mt
            why = f'parsed as {type(m).__name__}, re-serialised payload {m.payload.hex() or "(empty)"} (original {payload.hex()})'
        except Exception as e:
            ok, why = False, f'{cm.exc_name(e)}: {e}'
        if ok:
            rec.ok(key)
        else:
            rec.bad(key, 'avdtp_generic', {'unit': 'avdtp.Message', 'fallback': fb, 'how': 'payload_not_preserved'}, f'signal {sig:#x} message type {mt} (no registered class): {why}', {'unit': 'avdtp_generic', 'sig': sig, 'mt': mt})
    # media codec capability of every A2DP codec type: SBC / AAC / vendor are covered above;
    # MPEG-1,2 Audio and ATRAC have no information class, their information is opaque bytes
    for ctype in rec.seq([1, 3, 4, 0x7F]):
        info = b'\x3f\x07\xff\xfe'
        ref = bytes([7, 2 + len(info), 0x00, ctype]) + info
        key = ('codec_cap', ctype)
        sig = {'unit': 'MediaCodecCapabilities', 'codec_type': 'without information class (not SBC/AAC/vendor)'}
        case = {'unit': 'codec_cap', 'ctype': ctype}
        try:
            caps = avdtp.ServiceCapabilities.parse_capabilities(ref)
            out = avdtp.ServiceCapabilities.serialize_capabilities(caps)
        except Exception as e:
            rec.bad(key, 'avdtp_capabilities', dict(sig, how=f'parse_exception:{cm.exc_name(e)}'), f'media codec capability with codec type {ctype:#x} ({ref.hex()}): parse raised {cm.exc_name(e)}: {e}', case)
            continue
        if out != ref:
            rec.bad(key, 'avdtp_capabilities', dict(sig, how='reserialised_bytes_differ'), f'codec type {ctype:#x}: {ref.hex()} -> {out.hex()}', case)
        else:
            rec.ok(key)
    # direct capability list codec at the length boundary
    for label, objs, ref in rec.seq(cap_candidates(rec)):
        key = ('caps', label)
        try:
            wire = avdtp.ServiceCapabilities.serialize_capabilities(objs)
            back = avdtp.ServiceCapabilities.parse_capabilities(ref)
            r = cm.same(objs, back, 'capabilities')
            again = avdtp.ServiceCapabilities.serialize_capabilities(back)
        except Exception as e:
            rec.bad(key, 'avdtp_capabilities', {'unit': 'ServiceCapabilities', 'case': label, 'how': f'exception:{cm.exc_name(e)}'}, f'{label}: {e}', {'unit': 'caps', 'label': label})
            continue
        if wire != ref or r or again != ref:
            rec.bad(key, 'avdtp_capabilities', {'unit': 'ServiceCapabilities', 'case': label, 'how': 'mismatch'}, f'{label}: wire {cm.short(wire)} ref {cm.short(ref)} {r}', {'unit': 'caps', 'label': label})
        else:
            rec.ok(key)
    # end-point info: all SEIDs x in-use x media type x TSEP
    n = 0
    for seid in range(64):
        for in_use in (0, 1):
            for mt in (0, 1, 2, 0xF):
                for tsep in (0, 1):
                    ref = bytes([seid << 2 | in_use << 1, mt << 4 | tsep << 3])
                    key = ('ep', seid, in_use, mt, tsep)
                    n += 1
                    try:
                        e = avdtp.EndPointInfo(seid, in_use, avdtp.MediaType(mt), avdtp.StreamEndPointType(tsep))
                        b = avdtp.EndPointInfo.from_bytes(ref)
                        ok = bytes(e) == ref and b == e and bytes(b) == ref
                    except Exception:
                        ok = False
                    if ok:
                        rec.ok(key)
                    else:
                        rec.bad(key, 'avdtp_endpoint', {'unit': 'EndPointInfo', 'media_type': mt, 'tsep': tsep}, f'EndPointInfo seid={seid} in_use={in_use} mt={mt} tsep={tsep}', {'unit': 'ep'})
    rec.st.count('endpoint_cases', n)


def run_avdtp(rec: Rec, k: int, quick: bool):
    check_codec_info(rec, quick)
    cm.run_adapter(AvdtpAdapter(), rec, k)
    check_avdtp_wire(rec)
    check_avdtp_misc(rec)


# ===========================================================================
# RTP (RFC 3550 5.1)
# ===========================================================================
def ref_rtp(c: dict, payload: bytes) -> bytes:
    b0 = c['version'] << 6 | c['padding'] << 5 | c['extension'] << 4 | len(c['csrc'])
    b1 = c['marker'] << 7 | c['payload_type']
    return bytes([b0, b1]) + struct.pack('>HII', c['sequence_number'], c['timestamp'], c['ssrc']) + b''.join(struct.pack('>I', x) for x in c['csrc']) + payload


def run_rtp(rec: Rec, quick: bool):
    from bumble import rtp

    base = dict(version=2, padding=0, extension=0, marker=0, payload_type=96, sequence_number=1, timestamp=2, ssrc=0x11223344, csrc=[], plen=3)
    csrcs = [0xA1B2C3D4, 0x01020304, 0xFFFFFFFF, 0, 0x80000000, 0x7FFFFFFF, 0x00FF00FF, 0x12345678, 9, 10, 11, 12, 13, 14, 15]
    dom = {
        'version': [0, 1, 2, 3],
        'padding': [0, 1],
        'extension': [0, 1],
        'marker': [0, 1],
        'payload_type': [0, 1, 96, 127],
        'sequence_number': [0, 1, 0xFF, 0x100, 0x7FFF, 0x8000, 0xFFFF],
        'timestamp': cm.U32,
        'ssrc': cm.U32,
        'csrc': [csrcs[:n] for n in range(16)],
        'plen': [0, 1, 3, 255, 1024],
    }
    combos = [dict(base)]
    for f, vals in dom.items():
        for v in vals:
            if v != base[f]:
                combos.append(dict(base, **{f: v}))
    import itertools

    for (f, fv), (g, gv) in itertools.combinations(dom.items(), 2):
        for v in (fv if not quick else fv[:: max(1, len(fv) // 3)]):
            for w in (gv if not quick else gv[:: max(1, len(gv) // 3)]):
                combos.append(dict(base, **{f: v, g: w}))
    results = []
    for c in rec.seq(combos):
        payload = rec.fill(c['plen'], 1)
        ref = ref_rtp(c, payload)
        key = ('rtp', c['version'], c['padding'], c['extension'], c['marker'], c['payload_type'], c['sequence_number'], c['timestamp'], c['ssrc'], len(c['csrc']), c['plen'])
        how = None
        try:
            p = rtp.MediaPacket(c['version'], c['padding'], c['extension'], c['marker'], c['sequence_number'], c['timestamp'], c['ssrc'], list(c['csrc']), c['payload_type'], payload)
            wire = bytes(p)
            b = rtp.MediaPacket.from_bytes(ref)
            names = ['version', 'padding', 'extension', 'marker', 'payload_type', 'sequence_number', 'timestamp', 'ssrc']
            bad = [n for n in names if getattr(b, n) != c[n]]
            if list(b.csrc_list) != list(c['csrc']):
                bad.append('csrc_list')
            if b.payload != payload:
                bad.append('payload')
            if wire != ref:
                how, msg = 'serialised_differs_from_spec', f'{cm.short(wire)} vs {cm.short(ref)}'
            elif bad:
                how, msg = 'parsed_fields_differ:' + ','.join(bad), f'parsed {bad} differ (csrc {[hex(x) for x in b.csrc_list]})'
            elif bytes(b) != ref:
                how, msg = 'reserialised_bytes_differ', cm.bytes_diff(ref, bytes(b))
        except Exception as e:
            how, msg = f'exception:{cm.exc_name(e)}', f'{cm.exc_name(e)}: {e}'
        results.append((c, how, msg if how else None))
        if how:
            rec.st.case(key)
        else:
            rec.ok(key)
    hows = sorted({h for _, h, _ in results if h})
    proj = [{'csrc_count>=2': len(c['csrc']) >= 2, 'csrc_count': len(c['csrc']), 'version': c['version'], 'padding': c['padding'], 'extension': c['extension'], 'marker': c['marker'], 'plen': c['plen']} for c, _, _ in results]
    for how in hows:
        failing = [h == how for _, h, _ in results]
        when = cm.explain(proj, failing)
        lst = [(c, m) for c, h, m in results if h == how]
        c0, m0 = lst[0] if rec.order > 0 else lst[-1]
        sig = {'unit': 'rtp.MediaPacket', 'how': how, 'failing_when': when if when is not None else 'no simple characterisation'}
        rec.st.violation('rtp', sig, f'rtp.MediaPacket: {len(lst)} of {len(results)} cases fail ({how}) exactly when {when}; e.g. csrc count {len(c0["csrc"])}: {m0}', {'unit': 'rtp', 'csrc_count': len(c0['csrc'])})
        if rec.keep:
            rec.outcomes[cm.core.digest(('rtp', how))] = cm.core.canon_json(sig)
    rec.st.count('rtp_cases', len(combos))
    rec.st.samples.append({'rtp_cases': len(combos), 'csrc_counts': '0..15', 'payload_lengths': dom['plen']})


# ===========================================================================
# AVCTP (AVCTP 6.1.1 single packet: [label<<4 | packet type<<2 | C/R<<1 | IPID, PID(2 BE)])
# ===========================================================================
def check_avctp(rec: Rec, quick: bool):
    from bumble import avctp

    got = []
    ch = StubChannel()
    proto = avctp.Protocol(ch)
    asm = avctp.MessageAssembler(lambda *a: got.append(a))  # one assembler for the whole run
    n = 0
    for label in rec.seq(range(16)):
        for is_command, ipid in ((True, False), (False, False), (False, True)):
            for pid in (0x110E, 0x0000, 0xFFFF, 0x00FF, 0xFF00):
                for ln in ((0, 1, 255, 256, 65532) if not quick or label in (0, 15) else (0, 3)):
                    payload = b'' if ipid else rec.fill(ln, label)
                    key = ('avctp', label, is_command, ipid, pid, ln)
                    case = {'unit': 'avctp', 'label': label, 'cmd': is_command, 'ipid': ipid, 'pid': pid, 'ln': ln}
                    ref = bytes([label << 4 | (0 if is_command else 1) << 1 | (1 if ipid else 0)]) + struct.pack('>H', pid) + payload
                    n += 1
                    ch.sent.clear()
                    got.clear()
                    try:
                        proto.send_message(label, is_command, ipid, pid, payload)
                        asm.on_pdu(ref)
                    except Exception as e:
                        rec.bad(key, 'avctp', {'unit': 'avctp_single_packet', 'how': f'exception:{cm.exc_name(e)}'}, f'{case}: {e}', case)
                        continue
                    if ch.sent != [ref]:
                        rec.bad(key, 'avctp', {'unit': 'avctp_single_packet', 'how': 'header_bytes', 'command': is_command, 'ipid': ipid}, f'{case}: sent {[cm.short(p) for p in ch.sent]} expected {cm.short(ref)}', case)
                    elif got != [(label, is_command, ipid, pid, payload)]:
                        rec.bad(key, 'avctp', {'unit': 'avctp_single_packet', 'how': 'parsed_differs', 'command': is_command, 'ipid': ipid}, f'{case}: assembler delivered {[(g[0], g[1], g[2], g[3], len(g[4])) for g in got]}', case)
                    else:
                        rec.ok(key)
    rec.st.count('avctp_cases', n)


# ===========================================================================
# AV/C frames (AV/C Digital Interface Command Set General Spec 4.1: 5.3.1-5.3.3)
# ===========================================================================
def check_avc(rec: Rec, quick: bool):
    from bumble import avc

    F = avc.Frame
    n = 0
    subunit_types = [t for t in F.SubunitType if t != F.SubunitType.EXTENDED]
    opcodes = [0x01, 0x02, 0x30, 0x31, 0x7D, 0xB0, 0x55, 0xFF]  # none has a registered subclass
    for code in rec.seq(list(range(0, 5)) + [8, 9, 0xA, 0xB, 0xC, 0xD, 0xF]):
        is_cmd = code < 8
        for st_ in (subunit_types if not quick else subunit_types[::3] + [F.SubunitType.PANEL, F.SubunitType.UNIT]):
            for sid in (0, 1, 4, 7):
                for op in (opcodes if not quick else opcodes[::3]):
                    for ln in (0, 1, 255, 512):
                        operands = rec.fill(ln, op)
                        ref = bytes([code, int(st_) << 3 | sid, op]) + operands
                        key = ('avc', code, int(st_), sid, op, ln)
                        case = {'unit': 'avc_generic', 'code': code, 'st': int(st_), 'sid': sid, 'op': op, 'ln': ln}
                        n += 1
                        try:
                            if is_cmd:
                                f = avc.CommandFrame(avc.CommandFrame.CommandType(code), st_, sid, F.OperationCode(op), operands)
                            else:
                                f = avc.ResponseFrame(avc.ResponseFrame.ResponseCode(code), st_, sid, F.OperationCode(op), operands)
                            wire = bytes(f)
                            b = F.from_bytes(ref)
                            ok = (
                                wire == ref
                                and type(b) is type(f)
                                and int(b.ctype if is_cmd else b.response) == code
                                and b.subunit_type == st_
                                and b.subunit_id == sid
                                and int(b.opcode) == op
                                and b.operands == operands
                                and bytes(b) == ref
                            )
                            why = f'wire {cm.short(wire)} ref {cm.short(ref)} parsed {type(b).__name__}'
                        except Exception as e:
                            ok, why = False, f'{cm.exc_name(e)}: {e}'
                        if ok:
                            rec.ok(key)
                        else:
                            rec.bad(key, 'avc_frame', {'unit': 'avc.Frame', 'kind': 'command' if is_cmd else 'response', 'how': 'generic_frame_mismatch'}, f'{case}: {why}', case)
    # extended subunit IDs (5.3.3): id field 5 + extension octet(s); legal on the wire.
    # (FF 00 is left out: bumble's parser maps it to the same id as FE, so no serialiser could invert both)
    for label, idbytes, sid in rec.seq([('ext1', b'\x01', 6), ('ext254', b'\xfe', 259), ('ext255+7', b'\xff\x07', 266)]):
        ref = bytes([0x00, int(F.SubunitType.PANEL) << 3 | 5]) + idbytes + bytes([0x30]) + b'\xaa'
        key = ('avc_ext', label)
        case = {'unit': 'avc_ext', 'label': label}
        n += 1
        try:
            b = F.from_bytes(ref)
            out = bytes(b)
        except Exception as e:
            rec.note(key, f'refused:{cm.exc_name(e)}')
            rec.st.add('refused', f'avc extended subunit id {label}')
            continue
        if out != ref:
            rec.bad(key, 'avc_frame', {'unit': 'avc.Frame', 'how': 'extended_subunit_id_parsed_but_not_reserialised'}, f'extended subunit id {label}: {ref.hex()} parses (subunit_id={b.subunit_id}) but re-serialises to {out.hex()}', case)
        else:
            rec.ok(key)
    # vendor dependent
    for code in rec.seq([0, 1, 3, 9, 0xC, 0xF]):
        for cid in (0x001958, 0, 0xFFFFFF, 0x0000FF, 0x800000):
            for ln in (0, 1, 4, 508):
                data = rec.fill(ln, cid & 0xFF)
                ref = bytes([code, int(F.SubunitType.PANEL) << 3 | 0, 0x00]) + cid.to_bytes(3, 'big') + data
                key = ('avc_vendor', code, cid, ln)
                case = {'unit': 'avc_vendor', 'code': code, 'cid': cid, 'ln': ln}
                n += 1
                try:
                    if code < 8:
                        f = avc.VendorDependentCommandFrame(avc.CommandFrame.CommandType(code), F.SubunitType.PANEL, 0, cid, data)
                    else:
                        f = avc.VendorDependentResponseFrame(avc.ResponseFrame.ResponseCode(code), F.SubunitType.PANEL, 0, cid, data)
                    wire = bytes(f)
                    b = F.from_bytes(ref)
                    ok = wire == ref and type(b) is type(f) and b.company_id == cid and b.vendor_dependent_data == data and bytes(b) == ref
                    why = f'wire {cm.short(wire)} ref {cm.short(ref)}'
                except Exception as e:
                    ok, why = False, f'{cm.exc_name(e)}: {e}'
                if ok:
                    rec.ok(key)
                else:
                    rec.bad(key, 'avc_frame', {'unit': 'avc.VendorDependentFrame', 'how': 'mismatch'}, f'{case}: {why}', case)
    # pass through (AV/C Panel Subunit 9.4): [state<<7 | operation id, data length, data...]
    P = avc.PassThroughFrame
    ops = sorted({int(o) for o in P.OperationId} | {0x7F, 0x60})
    results = []
    for code in rec.seq([0, 9, 0xA]):
        for state in (0, 1):
            for op in (ops if not quick or code == 0 else ops[::8]):
                for ln in (0, 1, 2, 5, 255):
                    data = (b'\xa5' + rec.fill(ln - 1, op)) if ln else b''  # never starts with its own length
                    ref = bytes([code, int(F.SubunitType.PANEL) << 3 | 0, 0x7C, state << 7 | op, ln]) + data
                    key = ('avc_pt', code, state, op, ln)
                    n += 1
                    how = None
                    try:
                        if code < 8:
                            f = avc.PassThroughCommandFrame(avc.CommandFrame.CommandType(code), F.SubunitType.PANEL, 0, P.StateFlag(state), P.OperationId(op), data)
                        else:
                            f = avc.PassThroughResponseFrame(avc.ResponseFrame.ResponseCode(code), F.SubunitType.PANEL, 0, P.StateFlag(state), P.OperationId(op), data)
                        wire = bytes(f)
                        b = F.from_bytes(ref)
                        if wire != ref:
                            how, msg = 'serialised_differs_from_spec', f'{cm.short(wire)} vs {cm.short(ref)}'
                        elif type(b) is not type(f):
                            how, msg = 'class', type(b).__name__
                        elif int(b.state_flag) != state or int(b.operation_id) != op:
                            how, msg = 'parsed_fields_differ:state/operation', f'{b.state_flag} {b.operation_id}'
                        elif b.operation_data != data:
                            how, msg = 'parsed_fields_differ:operation_data', f'operation_data {cm.short(data)} parsed as {cm.short(b.operation_data)}'
                        elif bytes(b) != ref:
                            how, msg = 'reserialised_bytes_differ', cm.bytes_diff(ref, bytes(b))
                    except Exception as e:
                        how, msg = f'exception:{cm.exc_name(e)}', f'{cm.exc_name(e)}: {e}'
                    results.append(({'code': code, 'state': state, 'op': op, 'operation_data_len>0': ln > 0, 'len': ln}, how, msg if how else None))
                    if how:
                        rec.st.case(key)
                    else:
                        rec.ok(key)
    for how in sorted({h for _, h, _ in results if h}):
        failing = [h == how for _, h, _ in results]
        when = cm.explain([c for c, _, _ in results], failing)
        lst = [(c, m) for c, h, m in results if h == how]
        c0, m0 = lst[0] if rec.order > 0 else lst[-1]
        sig = {'unit': 'avc.PassThroughFrame', 'how': how, 'failing_when': when if when is not None else 'no simple characterisation'}
        rec.st.violation('avc_frame', sig, f'avc.PassThroughFrame: {len(lst)} of {len(results)} cases fail ({how}) exactly when {when}; e.g. {c0}: {m0}', {'unit': 'avc_pt', 'c': c0})
        if rec.keep:
            rec.outcomes[cm.core.digest(('avc_pt', how))] = cm.core.canon_json(sig)
    rec.st.count('avc_cases', n)


# ===========================================================================
# AVRCP
# ===========================================================================
def strings(size_bytes: int, rec: Rec):
    vals = ['abc', '', 'é€\U0001F3B5', 'x' * 255]
    if size_bytes == 2:
        vals += ['y' * 256, 'z' * 65535]
    out = []
    for s in vals:
        enc = s.encode('utf-8')
        if len(enc) >= 1 << (8 * size_bytes):
            continue
        out.append((f'str{len(enc)}', s, len(enc).to_bytes(size_bytes, 'big') + enc))
    return out


def ref_attr(aid: int, cs: int, s: str) -> bytes:
    e = s.encode('utf-8')
    return struct.pack('>IHH', aid, cs, len(e)) + e


def _u64be_spec():
    from bumble import avrcp

    return avrcp._UINT64_BE_METADATA['bumble.hci'].spec


def avrcp_custom(cls, name, spec, rec: Rec):
    from bumble import avrcp

    if spec is _u64be_spec():
        return [(cm.lab(v), v, v.to_bytes(8, 'big')) for v in cm.U64]
    if isinstance(spec, dict) and isinstance(spec.get('parser'), functools.partial):
        return strings(spec['parser'].keywords['length_size'], rec)
    if spec == avrcp.MediaAttribute.parse_from_bytes or spec == avrcp.AttributeValueEntry.parse_from_bytes:
        k = avrcp.MediaAttribute if spec == avrcp.MediaAttribute.parse_from_bytes else avrcp.AttributeValueEntry
        out = []
        for aid, cs, s in ((1, 0x6A, 'Title'), (7, 0x6A, ''), (0xFFFFFFFF, 0xFFFF, 'é' * 100), (0, 0, 'q' * 300)):
            out.append((f'attr{aid:#x}', k(avrcp.MediaAttributeId(aid), avrcp.CharacterSetId(cs), s), ref_attr(aid, cs, s)))
        return out
    if name == 'player_application_settings':
        S = avrcp.PlayerApplicationSettingChangedEvent.Setting
        out = []
        # attribute ids outside 1..4 (vendor menu extensions) are exercised in check_avrcp_hand
        for a, v in ((1, 1), (2, 4), (3, 3), (4, 2), (1, 0x55)):
            out.append((f'set{a}:{v}', S(avrcp.ApplicationSetting.AttributeId(a), v), bytes([a, v])))
        return out
    if name == 'player':
        P = avrcp.AddressedPlayerChangedEvent.Player
        return [(f'player{a:#x}', P(a, b), struct.pack('>HH', a, b)) for a, b in ((1, 2), (0, 0), (0xFFFF, 0xFFFF), (0x00FF, 0xFF00))]
    if name == 'event' and cls.__name__ == 'RegisterNotificationResponse':
        evs = [
            ('volume', avrcp.VolumeChangedEvent(0x7F), bytes([0x0D, 0x7F])),
            ('track', avrcp.TrackChangedEvent(0xFFFFFFFFFFFFFFFF), bytes([0x02]) + b'\xff' * 8),
            ('status', avrcp.PlaybackStatusChangedEvent(avrcp.PlayStatus.PLAYING), bytes([0x01, 0x01])),
            ('now_playing', avrcp.NowPlayingContentChangedEvent(), bytes([0x09])),
            ('pos', avrcp.PlaybackPositionChangedEvent(0x01020304), bytes([0x05, 1, 2, 3, 4])),
            ('addressed', avrcp.AddressedPlayerChangedEvent(avrcp.AddressedPlayerChangedEvent.Player(1, 2)), bytes([0x0B, 0, 1, 0, 2])),
        ]
        return evs
    return None


def fresh_by_fields(v):
    """Rebuild an object that caches its serialisation from its dataclass fields."""
    import dataclasses

    kw = {f.name: cm.fresh(getattr(v, f.name)) for f in dataclasses.fields(v) if f.init and not f.name.startswith('_')}
    return type(v)(**kw)


def _register_fresh():
    from bumble import avrcp

    for c in list(avrcp.Event.subclasses.values()) + list(avrcp.BrowseableItem.subclasses.values()):
        cm.FRESH_HOOKS[c.__name__] = fresh_by_fields


class AvrcpCommandAdapter(Adapter):
    proto = 'avrcp_command'

    def classes(self):
        from bumble import avrcp

        return sorted(avrcp.Command.subclasses.items(), key=lambda kv: int(kv[0]))

    def custom(self, cls, name, spec, rec):
        return avrcp_custom(cls, name, spec, rec)

    def decode(self, key, cls, data):
        from bumble import avrcp

        return avrcp.Command.from_bytes(key, data)


class AvrcpResponseAdapter(Adapter):
    proto = 'avrcp_response'
    HAND = ('GetCapabilitiesResponse', 'GetFolderItemsResponse')

    def classes(self):
        from bumble import avrcp

        return [(k, c) for k, c in sorted(avrcp.Response.subclasses.items(), key=lambda kv: int(kv[0])) if c.__name__ not in self.HAND]

    def custom(self, cls, name, spec, rec):
        return avrcp_custom(cls, name, spec, rec)

    def decode(self, key, cls, data):
        from bumble import avrcp

        return avrcp.Response.from_bytes(data, avrcp.PduId(key))


class AvrcpEventAdapter(Adapter):
    proto = 'avrcp_event'

    def classes(self):
        from bumble import avrcp

        return sorted(avrcp.Event.subclasses.items(), key=lambda kv: int(kv[0]))

    def custom(self, cls, name, spec, rec):
        return avrcp_custom(cls, name, spec, rec)

    def decode(self, key, cls, data):
        from bumble import avrcp

        return avrcp.Event.from_bytes(data)

    def header_ref(self, key, cls, values, body):
        return bytes([int(key)])


class AvrcpItemAdapter(Adapter):
    """Browsable items are parsed at an offset inside a larger buffer (the folder items
    response), so the decode embeds the item between other bytes."""

    proto = 'avrcp_item'
    PRE, POST = b'\x04\x00\x01\x00\x02', b'\x03\x00\x00'

    def classes(self):
        from bumble import avrcp

        return sorted(avrcp.BrowseableItem.subclasses.items(), key=lambda kv: int(kv[0]))

    def custom(self, cls, name, spec, rec):
        d = avrcp_custom(cls, name, spec, rec)
        if d is not None and name == 'displayable_name':
            d = [c for c in d if len(c[2]) < 60000]  # the item length field is 16 bits
        return d

    def signature(self, cls, check, sig, at):
        if check == 'parse_reserialise' and sig.get('how') == 'bytes_differ':
            # one defect whatever the item class: the parsed item caches the wrong slice
            return 'avrcp_item_reserialise', {'unit': 'BrowseableItem', 'how': 'parsed_item_reserialises_to_other_bytes'}
        return super().signature(cls, check, sig, at)

    def decode(self, key, cls, data):
        from bumble import avrcp

        end, item = avrcp.BrowseableItem.parse_from_bytes(self.PRE + data + self.POST, len(self.PRE))
        if end != len(self.PRE) + len(data):
            raise AssertionError(f'item ends at {end}, expected {len(self.PRE) + len(data)}')
        return item

    def header_ref(self, key, cls, values, body):
        return struct.pack('>BH', int(key), len(body))


def check_avrcp_hand(rec: Rec):
    from bumble import avrcp

    R = avrcp.GetCapabilitiesResponse
    Cap = avrcp.GetCapabilitiesCommand.CapabilityId
    # GetCapabilities response (AVRCP 6.4.1): [capability id, count, items]
    cases = [
        ('company1', Cap.COMPANY_ID, [b'\x00\x19\x58'], b'\x02\x01\x00\x19\x58'),
        ('company2', Cap.COMPANY_ID, [b'\x00\x19\x58', b'\xff\xff\xff'], b'\x02\x02\x00\x19\x58\xff\xff\xff'),
        ('events0', Cap.EVENTS_SUPPORTED, [], b'\x03\x00'),
        ('events3', Cap.EVENTS_SUPPORTED, [avrcp.EventId(1), avrcp.EventId(2), avrcp.EventId(0x0D)], b'\x03\x03\x01\x02\x0d'),
        ('events13', Cap.EVENTS_SUPPORTED, [avrcp.EventId(i) for i in range(1, 14)], bytes([3, 13]) + bytes(range(1, 14))),
    ]
    for label, cid, caps, ref in rec.seq(cases):
        key = ('getcaps', label)
        case = {'unit': 'getcaps', 'label': label}
        try:
            wire = bytes(R(cid, caps))
            b = avrcp.Response.from_bytes(ref, avrcp.PduId.GET_CAPABILITIES)
            ok = wire == ref and type(b) is R and int(b.capability_id) == int(cid) and [bytes(x) for x in b.capabilities] == [bytes(x) for x in caps] and bytes(R(b.capability_id, list(b.capabilities))) == ref
            why = f'wire {wire.hex()} ref {ref.hex()}'
        except Exception as e:
            ok, why = False, f'{cm.exc_name(e)}: {e}'
        if ok:
            rec.ok(key)
        else:
            rec.bad(key, 'avrcp_hand', {'unit': 'GetCapabilitiesResponse', 'case': label}, f'{label}: {why}', case)
    # GetFolderItems response: [status, uid counter(2), count(2), items]
    F = avrcp.FolderItem
    M = avrcp.MediaElementItem
    P = avrcp.MediaPlayerItem

    def folder(uid, name):
        e = name.encode()
        body = struct.pack('>QBBHH', uid, 1, 1, 0x6A, len(e)) + e
        return F(uid, F.FolderType(1), F.Playable(1), avrcp.CharacterSetId(0x6A), name), struct.pack('>BH', 2, len(body)) + body

    def media(uid, name, attrs):
        e = name.encode()
        body = struct.pack('>QBHH', uid, 0, 0x6A, len(e)) + e + bytes([len(attrs)]) + b''.join(ref_attr(a, 0x6A, s) for a, s in attrs)
        return M(uid, M.MediaType(0), avrcp.CharacterSetId(0x6A), name, [avrcp.AttributeValueEntry(avrcp.MediaAttributeId(a), avrcp.CharacterSetId(0x6A), s) for a, s in attrs]), struct.pack('>BH', 3, len(body)) + body

    def player(pid, name):
        e = name.encode()
        feat = (1 << 40) | (1 << 68) | 1
        body = struct.pack('>HB', pid, 1) + (2).to_bytes(4, 'little') + bytes([1]) + feat.to_bytes(16, 'little') + struct.pack('>HH', 0x6A, len(e)) + e
        return P(pid, P.MajorPlayerType(1), P.PlayerSubType(2), avrcp.PlayStatus(1), P.Features(feat), avrcp.CharacterSetId(0x6A), name), struct.pack('>BH', 1, len(body)) + body

    lists = [
        ('none', []),
        ('folder', [folder(1, 'Music')]),
        ('two_folders', [folder(1, 'A'), folder(0xFFFFFFFFFFFFFFFF, 'Bé')]),
        ('mixed', [player(7, 'Player'), folder(2, ''), media(3, 'Song', [(1, 'T'), (2, '')]), media(4, '', [])]),
    ]
    for label, items in rec.seq(lists):
        for status, uidc in ((4, 0), (4, 0xFFFF)):
            key = ('folderitems', label, uidc)
            case = {'unit': 'folderitems', 'label': label}
            ref = struct.pack('>BHH', status, uidc, len(items)) + b''.join(r for _, r in items)
            objs = [o for o, _ in items]
            sig = {'unit': 'GetFolderItemsResponse', 'items': label}
            try:
                wire = bytes(avrcp.GetFolderItemsResponse(avrcp.StatusCode(status), uidc, objs))
                b = avrcp.Response.from_bytes(ref, avrcp.PduId.GET_FOLDER_ITEMS)
                r = cm.same(objs, list(b.items), 'items')
                rebuilt = bytes(avrcp.GetFolderItemsResponse(b.status, b.uid_counter, [cm.fresh(i) for i in b.items]))
                item_bytes = [bytes(i) for i in b.items]
            except Exception as e:
                rec.bad(key, 'avrcp_hand', dict(sig, how=f'exception:{cm.exc_name(e)}'), f'{label}: {cm.exc_name(e)}: {e}', case)
                continue
            if wire != ref:
                rec.bad(key, 'avrcp_hand', dict(sig, how='serialised_differs_from_spec'), f'{label}: {cm.short(wire)} vs {cm.short(ref)} ({cm.bytes_diff(ref, wire)})', case)
            elif r or int(b.status) != status or b.uid_counter != uidc:
                rec.bad(key, 'avrcp_hand', dict(sig, how='parsed_fields_differ'), f'{label}: {r}', case)
            elif rebuilt != ref:
                rec.bad(key, 'avrcp_hand', dict(sig, how='rebuild_bytes_differ'), f'{label}: {cm.bytes_diff(ref, rebuilt)}', case)
            elif item_bytes != [r_ for _, r_ in items]:
                rec.bad(key, 'avrcp_item_reserialise', {'unit': 'BrowseableItem', 'how': 'parsed_item_reserialises_to_other_bytes'}, f'{label}: an item parsed out of the response re-serialises to {cm.short(next(a for a, (_, e) in zip(item_bytes, items) if a != e))}, original {cm.short(next(e for a, (_, e) in zip(item_bytes, items) if a != e))}', case)
            else:
                rec.ok(key)
    # player application setting with an attribute id outside the four standard ones
    # (AVRCP 27 Appendix F: 0x80-0xFF are TG-defined menu extensions)
    for a, v in rec.seq([(0x80, 0x01), (0xFF, 0xFF), (0x05, 0x01)]):
        key = ('setting_ext', a, v)
        ref = bytes([0x08, 1, a, v])
        sig = {'unit': 'PlayerApplicationSettingChangedEvent.Setting', 'attribute_id': 'outside 1..4'}
        case = {'unit': 'setting_ext', 'a': a, 'v': v}
        try:
            ev = avrcp.Event.from_bytes(ref)
            s0 = ev.player_application_settings[0]
            ok = int(s0.attribute_id) == a and int(s0.value_id) == v and bytes(fresh_by_fields(ev)) == ref
            S = avrcp.PlayerApplicationSettingChangedEvent.Setting
            ok = ok and bytes(avrcp.PlayerApplicationSettingChangedEvent([S(avrcp.ApplicationSetting.AttributeId(a), v)])) == ref
            how = 'mismatch'
        except Exception as e:
            ok, how = False, f'exception:{cm.exc_name(e)}'
            why = f'{cm.exc_name(e)}: {e}'
        if ok:
            rec.ok(key)
        else:
            rec.bad(key, 'avrcp_hand', dict(sig, how=how), f'setting attribute {a:#x} value {v:#x} ({ref.hex()}): {why if how != "mismatch" else "fields/bytes differ"}', case)
    # Rejected / NotImplemented carry the PDU id from context
    for pid in rec.seq([0x10, 0x31, 0x50, 0x74]):
        for sc in (0, 4, 0x16, 0xFF):
            key = ('rejected', pid, sc)
            try:
                b = avrcp.RejectedResponse.from_bytes(bytes([sc]), avrcp.PduId(pid))
                ok = bytes(avrcp.RejectedResponse(avrcp.PduId(pid), avrcp.StatusCode(sc))) == bytes([sc]) and int(b.status_code) == sc and int(b.pdu_id) == pid and bytes(avrcp.RejectedResponse(b.pdu_id, b.status_code)) == bytes([sc])
            except Exception:
                ok = False
            if ok:
                rec.ok(key)
            else:
                rec.bad(key, 'avrcp_hand', {'unit': 'RejectedResponse'}, f'RejectedResponse pdu {pid:#x} status {sc}', {'unit': 'rejected'})
        for ln in (0, 1, 9):
            key = ('notimpl', pid, ln)
            data = rec.fill(ln, pid)
            try:
                b = avrcp.NotImplementedResponse.from_bytes(data, avrcp.PduId(pid))
                ok = bytes(avrcp.NotImplementedResponse(avrcp.PduId(pid), data)) == data and b.parameters == data and int(b.pdu_id) == pid
            except Exception:
                ok = False
            if ok:
                rec.ok(key)
            else:
                rec.bad(key, 'avrcp_hand', {'unit': 'NotImplementedResponse'}, f'NotImplementedResponse pdu {pid:#x} len {ln}', {'unit': 'notimpl'})
    # AVRCP PDU header (AVRCP 6.3.1): [pdu id, packet type (0 = single), parameter length(2 BE)]
    got = []
    asm = avrcp.PduAssembler(lambda pid, param: got.append((int(pid), bytes(param))))
    for pid in rec.seq(sorted({int(p) for p in avrcp.PduId} | {0x00, 0xFF})):
        for ln in (0, 1, 255, 256, 512):
            key = ('avrcp_hdr', pid, ln)
            param = rec.fill(ln, pid)
            got.clear()
            try:
                asm.on_pdu(struct.pack('>BBH', pid, 0, ln) + param)
                ok = got == [(pid, param)] and asm.pdu_id is None and asm.parameter == b''
            except Exception:
                ok = False
            if ok:
                rec.ok(key)
            else:
                rec.bad(key, 'avrcp_hand', {'unit': 'avrcp_pdu_header', 'len': ln if ln < 2 else '>=255'}, f'PDU header pdu {pid:#x} len {ln}: delivered {[(p, len(x)) for p, x in got]}', {'unit': 'avrcp_hdr', 'pid': pid, 'ln': ln})


def run_avctp_avrcp(rec: Rec, k: int, quick: bool):
    _register_fresh()
    check_avctp(rec, quick)
    check_avc(rec, quick)
    for ad in (AvrcpCommandAdapter(), AvrcpResponseAdapter(), AvrcpEventAdapter(), AvrcpItemAdapter()):
        cm.run_adapter(ad, rec, k)
    check_avrcp_hand(rec)
