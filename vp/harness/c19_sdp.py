"""C19 helpers for the SDP sub-checks: a plain-Python description of service
records, an independent serialiser (for sizes), the reference matcher and the
reference attribute selection.  Nothing here calls bumble's SDP server logic;
`to_bumble` / `to_plain` only convert between the plain description and bumble's
DataElement objects (constructors / attribute reads).

plain element forms
  ('uint', size, value) ('uuid', width_bytes, value) ('text', bytes) ('bool', b)
  ('seq', [elements]) ('url', str) ('nil',)
"""
from __future__ import annotations

import itertools

BASE128 = 0x0000000000001000800000805F9B34FB


def U16(n):
    return ('uuid', 2, n)


def U32(n):
    return ('uuid', 4, n)


def U128(n):
    return ('uuid', 16, n)


def uuid128(elem) -> int:
    _, width, value = elem
    return value if width == 16 else (value << 96) + BASE128


def widen(elem):
    """the same UUID in its 128-bit form"""
    return U128(uuid128(elem))


# ---------------------------------------------------------------------------
# independent serialiser (Core spec Vol 3 Part B 3.2/3.3) - used for sizes only
# ---------------------------------------------------------------------------
def ref_bytes(e) -> bytes:
    t = e[0]
    if t == 'nil':
        return bytes([0])
    if t == 'uint':
        idx = {1: 0, 2: 1, 4: 2, 8: 3}[e[1]]
        return bytes([1 << 3 | idx]) + e[2].to_bytes(e[1], 'big')
    if t == 'sint':
        idx = {1: 0, 2: 1, 4: 2, 8: 3}[e[1]]
        return bytes([2 << 3 | idx]) + e[2].to_bytes(e[1], 'big', signed=True)
    if t == 'uuid':
        idx = {2: 1, 4: 2, 16: 4}[e[1]]
        return bytes([3 << 3 | idx]) + e[2].to_bytes(e[1], 'big')
    if t == 'bool':
        return bytes([5 << 3, 1 if e[1] else 0])
    if t in ('text', 'seq', 'url', 'alt'):
        if t == 'text':
            body, code = e[1], 4
        elif t == 'url':
            body, code = e[1].encode(), 8
        elif t == 'alt':
            body, code = b''.join(ref_bytes(x) for x in e[1]), 7
        else:
            body, code = b''.join(ref_bytes(x) for x in e[1]), 6
        n = len(body)
        if n <= 0xFF:
            return bytes([code << 3 | 5, n]) + body
        if n <= 0xFFFF:
            return bytes([code << 3 | 6]) + n.to_bytes(2, 'big') + body
        return bytes([code << 3 | 7]) + n.to_bytes(4, 'big') + body
    raise ValueError(e)


# ---------------------------------------------------------------------------
# conversions
# ---------------------------------------------------------------------------
def to_bumble(e):
    from bumble import core
    from bumble.sdp import DataElement as DE

    t = e[0]
    if t == 'nil':
        return DE.nil()
    if t == 'uint':
        return DE.unsigned_integer(e[2], e[1])
    if t == 'uuid':
        if e[1] == 2:
            return DE.uuid(core.UUID.from_16_bits(e[2]))
        if e[1] == 4:
            return DE.uuid(core.UUID.from_32_bits(e[2]))
        return DE.uuid(core.UUID.from_bytes(e[2].to_bytes(16, 'little')))
    if t == 'text':
        return DE.text_string(e[1])
    if t == 'bool':
        return DE.boolean(e[1])
    if t == 'url':
        return DE.url(e[1])
    if t == 'seq':
        return DE.sequence([to_bumble(x) for x in e[1]])
    if t == 'alt':
        return DE.alternative([to_bumble(x) for x in e[1]])
    if t == 'sint':
        return DE.signed_integer(e[2], e[1])
    raise ValueError(e)


def to_plain(de):
    from bumble.sdp import DataElement as DE

    t = de.type
    if t == DE.NIL:
        return ('nil',)
    if t == DE.UNSIGNED_INTEGER:
        return ('uint', de.value_size, de.value)
    if t == DE.UUID:
        ub = de.value.uuid_bytes
        return ('uuid', len(ub), int.from_bytes(ub, 'little'))
    if t == DE.TEXT_STRING:
        return ('text', bytes(de.value) if not isinstance(de.value, str) else de.value.encode())
    if t == DE.BOOLEAN:
        return ('bool', bool(de.value))
    if t == DE.URL:
        return ('url', de.value if isinstance(de.value, str) else bytes(de.value).decode())
    if t == DE.SEQUENCE:
        return ('seq', [to_plain(x) for x in de.value])
    if t == DE.ALTERNATIVE:
        return ('alt', [to_plain(x) for x in de.value])
    if t == DE.SIGNED_INTEGER:
        return ('sint', de.value_size, de.value)
    return ('other', int(t), repr(de.value))


def bumble_records(records):
    """records: {handle: [(attr_id, plain)]} -> {handle: [ServiceAttribute]}"""
    from bumble.sdp import ServiceAttribute

    return {h: [ServiceAttribute(a, to_bumble(v)) for a, v in attrs] for h, attrs in records.items()}


def bumble_uuid(elem):
    return to_bumble(elem).value


# ---------------------------------------------------------------------------
# reference semantics (Vol 3 Part B 2.5.2 search pattern; 4.5-4.7 transactions)
# ---------------------------------------------------------------------------
def uuids_in(e, out: set):
    if e[0] == 'uuid':
        out.add(uuid128(e))
    elif e[0] == 'seq':
        for x in e[1]:
            uuids_in(x, out)
    return out


def record_uuids(attrs) -> set:
    out = set()
    for _, v in attrs:
        uuids_in(v, out)
    return out


def ref_match(records, pattern, semantics='all'):
    """handles of the records that contain EVERY uuid of the pattern."""
    want = {uuid128(u) for u in pattern}
    out = []
    for h, attrs in records.items():
        have = record_uuids(attrs)
        ok = want <= have if semantics == 'all' else bool(want & have)
        if ok:
            out.append(h)
    return out


def in_ids(attr_id, ids):
    for i in ids:
        if isinstance(i, (tuple, list)):
            if i[0] <= attr_id <= i[1]:
                return True
        elif attr_id == i:
            return True
    return False


def ref_select(attrs, ids):
    return sorted(((a, v) for a, v in attrs if in_ids(a, ids)), key=lambda x: x[0])


def ref_search_attributes(records, pattern, ids, semantics='all'):
    out = []
    for h in ref_match(records, pattern, semantics):
        sel = ref_select(records[h], ids)
        out.append(sel)
    return out


def response_bytes_attr(attrs, ids) -> int:
    sel = ref_select(attrs, ids)
    return len(ref_bytes(('seq', [x for a, v in sel for x in (('uint', 2, a), v)])))


def response_bytes_search_attr(records, pattern, ids) -> int:
    lists = [l for l in ref_search_attributes(records, pattern, ids) if l]
    return len(ref_bytes(('seq', [('seq', [x for a, v in l for x in (('uint', 2, a), v)]) for l in lists])))


# ---------------------------------------------------------------------------
# the record universe
# ---------------------------------------------------------------------------
X128 = 0xE6D55659C8B44B8596BBB1143AF6D3AE
ABSENT16 = U16(0x1199)
ABSENT128 = U128(0xE6D55659C8B44B8596BBB1143AF6D3AF)  # differs from X128 in the last bit only

H = {'A': 0x10001, 'B': 0x10002, 'C': 0x10003, 'D': 0x10004, 'E': 0x10005}

RECORDS = {
    'A': [
        (0x0000, ('uint', 4, H['A'])),
        (0x0001, ('seq', [U16(0x1101), U128(X128)])),
        (0x0004, ('seq', [('seq', [U16(0x0100)]), ('seq', [U16(0x0003), ('uint', 1, 5)])])),
        (0x0100, ('text', b'Serial Port')),
    ],
    'B': [
        (0x0000, ('uint', 4, H['B'])),
        (0x0001, ('seq', [U16(0x1101)])),
        (0x0004, ('seq', [('seq', [U16(0x0100), ('uint', 2, 25)])])),
        (0x0005, ('seq', [U16(0x1002)])),
    ],
    'C': [
        (0x0000, ('uint', 4, H['C'])),
        (0x0001, ('seq', [U32(0x1102), U16(0x1103), U16(0x1101)])),
        (0x0009, ('seq', [('seq', [U16(0x110D), ('uint', 2, 0x0103)])])),
        (0x0101, ('url', 'http://x.y/z')),
    ],
    'D': [
        (0x0000, ('uint', 4, H['D'])),
        (0x0001, ('seq', [widen(U16(0x1102))])),  # 0x1102 stored in 128-bit form
        (0x0200, U16(0x1104)),  # a UUID that is the attribute value itself
        (0x0201, ('seq', [('seq', [('seq', [U16(0x1105), ('bool', True)]), ('nil',)])])),  # nested three deep
    ],
    'E': [
        (0x0000, ('uint', 4, H['E'])),
        (0x0001, ('seq', [U16(0x1200 + i) for i in range(1, 13)])),  # twelve UUIDs
        (0x0004, ('seq', [('seq', [U16(0x0100)])])),
    ],
}

ATTR_LISTS = [
    [(0x0000, 0xFFFF)],
    [0x0001],
    [0x0000, 0x0004],
    [(0x0001, 0x0005)],
    [0x0000, (0x0004, 0x0100), 0x0201],
    [0x7777],
    [],
]


def record_set(names):
    return {H[n]: RECORDS[n] for n in names}


def _nest(depth, leaf, kind='seq'):
    e = leaf
    for _ in range(depth):
        e = (kind, [e])
    return e


# records chosen for the SHAPE of their values (the statement says "any set of service records"): every record
# carries class id 0x1101 so one pattern selects them all; handles 0x4000x
SHAPES = {
    'empties': [(0x0001, ('seq', [U16(0x1101)]))] + [(0x0300 + i, ('seq', [])) for i in range(40)] + [(0x0400, ('seq', [('seq', [U16(0x0100)])]))],
    'empty_alts': [(0x0001, ('seq', [U16(0x1101)]))] + [(0x0300 + i, ('alt', [])) for i in range(36)] + [(0x0400, ('alt', [('seq', [('uint', 1, 9)])]))],
    'wide': [(0x0001, ('seq', [U16(0x1101)])), (0x0300, ('seq', [('seq', [])] * 40 + [('seq', [('seq', [('uint', 2, 515)])])])), (0x0301, ('seq', [('uint', 1, i) for i in range(70)]))],
    'deep': [(0x0001, ('seq', [U16(0x1101)])), (0x0300, _nest(20, ('uint', 1, 7))), (0x0301, _nest(12, U16(0x1105), 'alt')), (0x0302, ('seq', [_nest(9, ('nil',)), _nest(9, ('bool', False))]))],
    'scalars': [(0x0001, ('seq', [U16(0x1101)])), (0x0300, ('uint', 8, 0xFFFFFFFFFFFFFFFF)), (0x0301, ('sint', 1, -128)), (0x0302, ('sint', 2, -1)), (0x0303, ('sint', 4, -(1 << 31))),
                (0x0304, ('sint', 8, -2)), (0x0305, ('text', b'')), (0x0306, ('text', bytes(range(256)) + b'tail')), (0x0307, ('url', '')), (0x0308, ('bool', False)), (0x0309, ('nil',)), (0x030A, ('uint', 1, 0))],
}


def shape_records(names):
    out = {}
    for i, n in enumerate(names):
        h = 0x40001 + list(SHAPES).index(n)
        out[h] = [(0x0000, ('uint', 4, h))] + SHAPES[n]
    return out


def other_width(u):
    """the same UUID expressed in another width than the one it is stored in"""
    if u[1] == 16:
        v = u[2]
        if (v - BASE128) % (1 << 96) == 0 and 0 <= (v - BASE128) >> 96 < (1 << 16):
            return U16((v - BASE128) >> 96)
        return u
    return widen(u)


def stored_uuids(names):
    """UUID elements as stored in the named records, in a stable order, unique by 128-bit value"""
    out, seen = [], set()

    def walk(e):
        if e[0] == 'uuid':
            if uuid128(e) not in seen:
                seen.add(uuid128(e))
                out.append(e)
        elif e[0] == 'seq':
            for x in e[1]:
                walk(x)

    for n in names:
        for _, v in RECORDS[n]:
            walk(v)
    return out


def patterns(names, quick: bool):
    """search patterns for a record set: every stored UUID alone (asked in another
    width than stored), absent UUIDs, pairs, present+absent, triples, and the
    12-UUID maximum.  Patterns are lists of plain uuid elements."""
    core_u = stored_uuids([n for n in names if n != 'E'])
    e_u = stored_uuids(['E']) if 'E' in names else []
    e_only = [u for u in e_u if uuid128(u) not in {uuid128(x) for x in core_u}]
    out = []
    allu = core_u + e_only[:2]
    for i, u in enumerate(allu):
        out.append([other_width(u) if i % 2 == 0 else u])
    out.append([ABSENT16])
    out.append([ABSENT128])
    pairs = list(itertools.combinations(core_u, 2))
    for i, (a, b) in enumerate(pairs):
        out.append([a, other_width(b)] if i % 2 else [other_width(a), b])
    for u in (core_u[:3] if quick else core_u):
        out.append([u, ABSENT16])
        out.append([ABSENT128, u])
    # the same UUID named more than once (literally, and once per width): still "every UUID of the pattern"
    for u in (core_u[:2] if quick else core_u):
        out.append([u, u])
        out.append([u, other_width(u)])
    if len(core_u) >= 2:
        out.append([core_u[0], core_u[1], core_u[0]])
        out.append([core_u[0], ABSENT16, core_u[0]])
    triples = list(itertools.combinations(core_u, 3))
    if quick:
        # the lexicographically first triple of every distinct (set of records containing a, b, c) signature
        seen = set()
        keep = []
        for tr in triples:
            sig = tuple(tuple(sorted(n for n in names if uuid128(u) in record_uuids(RECORDS[n]))) for u in tr)
            if sig not in seen:
                seen.add(sig)
                keep.append(tr)
        triples = keep
    for tr in triples:
        out.append(list(tr))
    if e_only:
        twelve = e_u[:12]
        out.append(twelve)
        out.append(twelve[:11] + [ABSENT16])
        out.append([other_width(u) for u in twelve])
        if core_u:
            out.append(twelve[:11] + [core_u[0]])
    return out


# ---------------------------------------------------------------------------
# size-boundary record families
# ---------------------------------------------------------------------------
def padded_record(target: int, txn: str):
    """One record whose full answer ((0,0xFFFF), pattern = its class uuid) serialises
    to exactly `target` bytes for transaction `txn` ('sa' | 'ssa').  Returns the
    attrs list or None when no padding reaches the size."""
    h = 0x20001
    for extra in range(0, 4):
        base = [(0x0000, ('uint', 4, h)), (0x0001, ('seq', [U16(0x1101)]))]
        for i in range(extra):
            base.append((0x0300 + i, ('uint', 1, i)))

        def size(L):
            attrs = base + [(0x0100, ('text', bytes((7 * j + 1) & 0xFF for j in range(L))))]
            if txn == 'sa':
                return response_bytes_attr(attrs, [(0, 0xFFFF)]), attrs
            return response_bytes_search_attr({h: attrs}, [U16(0x1101)], [(0, 0xFFFF)]), attrs

        lo, hi = 0, max(16, target)
        s0, _ = size(0)
        if s0 > target:
            continue
        # size(L) is increasing in L: binary search
        while lo < hi:
            mid = (lo + hi) // 2
            if size(mid)[0] < target:
                lo = mid + 1
            else:
                hi = mid
        s, attrs = size(lo)
        if s == target:
            return attrs
    return None


def tiny_records(count: int):
    """`count` minimal records sharing one class uuid (service-search continuation)"""
    return {0x30000 + i: [(0x0000, ('uint', 4, 0x30000 + i)), (0x0001, ('seq', [U16(0x1101)]))] for i in range(count)}
