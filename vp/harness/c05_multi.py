"""C05 helpers: scenarios with more than one connection on a host.

multi  device 0 holds connections to devices 1 and 2 on ONE host ACL queue with a small
       buffer count; multi-fragment PDUs are queued towards both, then one of the two links
       is disconnected (by either end) while the queue is backed up.  The surviving
       connection must still get every PDU once, in order, intact, and its fragment stream at
       the host->controller boundary must stay well-formed.  PDUs of the disconnected link may
       be lost but never corrupted / duplicated / delivered elsewhere.
dual   two dual-mode devices connected over BR/EDR and LE at the same time (LE with public or
       random own addresses), different buffer geometry per transport, PDUs both ways on both
       links: each PDU must arrive on ITS connection handle exactly once, in order.

Everything observable is decoded by the independent decoders of props/c05.py.
"""
from __future__ import annotations

import itertools

MULTI_CID = (0x0040, 0x0041, 0xFFEE)


class Net:
    """N stacks with a tap on every host->controller boundary and recorders at every
    receiver (Host 'l2cap_pdu' events and the L2CAP manager's fixed-channel handlers)."""

    def __init__(self, n, attrs, classic, le, seed=0):
        from ..harness.devices import World
        from ..props.c05 import CIDS, Tap

        self.w = World(n, seed=seed, controller_attrs=attrs, classic=classic, le=le)
        self.w.__enter__()
        try:
            w = self.w
            self.wire = [[] for _ in range(n)]
            for i, h in enumerate(w.hosts):
                h.hci_sink = Tap(h.hci_sink, self.wire[i])
            w.power_on()
            self.events = [[] for _ in range(n)]
            self.l2cap = [[] for _ in range(n)]
            for i, (h, d) in enumerate(zip(w.hosts, w.devices)):
                h.on('l2cap_pdu', lambda handle, cid, pdu, i=i: self.events[i].append((handle, cid, bytes(pdu))))
                for cid in CIDS:
                    d.l2cap_channel_manager.register_fixed_channel(cid, lambda handle, pdu, i=i, cid=cid: self.l2cap[i].append((handle, cid, bytes(pdu))))
        except BaseException:
            self.close()
            raise

    def close(self):
        self.w.__exit__(None, None, None)

    def clear(self):
        for lst in (*self.wire, *self.events, *self.l2cap):
            lst.clear()
        self.w.loop.exceptions.clear()

    def connect_le(self, c, p, public=False):
        from bumble.core import PhysicalTransport
        from bumble.hci import OwnAddressType

        w = self.w
        dc, dp = w.devices[c], w.devices[p]
        got = []

        def on_conn(conn):
            if conn.transport == PhysicalTransport.LE:
                got.append(conn)

        dp.on('connection', on_conn)
        own = OwnAddressType.PUBLIC if public else OwnAddressType.RANDOM

        async def go():
            await dp.start_advertising(advertising_interval_min=500.0, advertising_interval_max=500.0, own_address_type=own)
            return await dc.connect(dp.public_address if public else dp.random_address, transport=PhysicalTransport.LE, own_address_type=own)

        cc = w.run(go())
        w.loop.run_until(lambda: bool(got))
        w.settle()
        dp.remove_listener('connection', on_conn)
        return cc, got[0]

    def connect_classic(self, c, p):
        from bumble.core import PhysicalTransport

        w = self.w
        dc, dp = w.devices[c], w.devices[p]
        got = []

        def on_conn(conn):
            if conn.transport == PhysicalTransport.BR_EDR:
                got.append(conn)

        dp.on('connection', on_conn)

        async def go():
            return await dc.connect(dp.public_address, transport=PhysicalTransport.BR_EDR)

        cc = w.run(go())
        w.loop.run_until(lambda: bool(got))
        w.settle()
        dp.remove_listener('connection', on_conn)
        return cc, got[0]


def stream_check(expected, got):
    """Per-connection stream at one receiver.  expected/got: lists of (cid, payload).
    -> None or (kind, index)."""
    from ..props.c05 import classify_delivery

    cl = classify_delivery(expected, got)
    if not cl:
        return None
    return cl[0], cl[1]


def lossy_stream_check(expected, got):
    """For a link that was torn down: got must be a subsequence of expected without
    repeats (lost is fine; corrupted / duplicated / reordered is not)."""
    pos = 0
    for g in got:
        try:
            pos = expected.index(g, pos) + 1
        except ValueError:
            return ('duplicated_or_reordered' if g in expected else 'corrupted', None)
    return None


# ---------------------------------------------------------------------------
# multi: disconnect one link while the shared queue holds a backlog
# ---------------------------------------------------------------------------
MULTI_TRANSPORTS = ('le', 'classic', 'le_shared', 'mixed_shared')


def multi_cases(quick):
    out = []
    if quick:
        geoms = [(27, 1), (27, 2), (5, 2)]
        delays = (0, 6, 24)
        orders = ('drop_first', 'interleaved')
        counts = [(1, 1), (2, 0), (2, 2), (3, 1)]
    else:
        geoms = [(5, 1), (5, 2), (8, 2), (27, 1), (27, 2), (27, 3), (251, 1), (251, 2)]
        delays = (0, 2, 4, 6, 10, 16, 24, 40, 80)
        orders = ('drop_first', 'keep_first', 'interleaved')
        counts = [(k, d) for k in (1, 2, 3) for d in (0, 1, 2)]
    for tr in MULTI_TRANSPORTS:
        for (L, N), keep, closer, order, (nk, nd), delay in itertools.product(geoms, (1, 2), ('local', 'remote'), orders, counts, delays):
            if nd == 0 and order != orders[0]:
                continue
            out.append({'transport': tr, 'L': L, 'N': N, 'keep': keep, 'closer': closer, 'order': order, 'nkeep': nk, 'ndrop': nd, 'delay': delay})
    return out


def run_multi(cfg, salt=0):
    """-> (violations [(check, sig, msg)], info dict)."""
    from ..props.c05 import check_fragments, controller_attrs, l2cap_frame, payload

    tr, L, N = cfg['transport'], cfg['L'], cfg['N']
    keep, drop = cfg['keep'], 3 - cfg['keep']
    classic = tr in ('classic', 'mixed_shared')
    le = tr != 'classic'
    a0 = controller_attrs('le_shared' if tr == 'mixed_shared' else tr, L, N)
    net = Net(3, {0: a0}, classic, le, seed=0)
    try:
        w = net.w
        # link kinds: device 1 / device 2
        kinds = {'le': ('le', 'le'), 'classic': ('classic', 'classic'), 'le_shared': ('le', 'le'), 'mixed_shared': ('le', 'classic')}[tr]
        conns = {}
        for dev, kind in zip((1, 2), kinds):
            conns[dev] = net.connect_le(0, dev) if kind == 'le' else net.connect_classic(0, dev)
        kind_of = dict(zip((1, 2), kinds))
        host0 = w.hosts[0]
        queue = host0.acl_packet_queue if kind_of[keep] == 'classic' else host0.le_acl_packet_queue
        info = {'backlog_at_flush': None, 'same_queue': (host0.acl_packet_queue if kind_of[drop] == 'classic' else host0.le_acl_packet_queue) is queue}
        host0.on('disconnection', lambda handle, reason: info.__setitem__('backlog_at_flush', queue.pending))
        net.clear()

        hk, hd = conns[keep][0].handle, conns[drop][0].handle
        keep_pdus = [(MULTI_CID[k % 3], payload((10 + 7 * k) * L - 4 + (k % 3) - 1, salt + 11 * k)) for k in range(cfg['nkeep'])]
        drop_pdus = [(MULTI_CID[(k + 1) % 3], payload((6 + 5 * k) * L - 3, salt + 100 + 13 * k)) for k in range(cfg['ndrop'])]
        back_pdu = (MULTI_CID[2], payload(3 * L - 4, salt + 200))
        sends = []
        if cfg['order'] == 'drop_first':
            sends = [(hd, p) for p in drop_pdus] + [(hk, p) for p in keep_pdus]
        elif cfg['order'] == 'keep_first':
            sends = [(hk, p) for p in keep_pdus] + [(hd, p) for p in drop_pdus]
        else:
            for a, b in itertools.zip_longest(keep_pdus, drop_pdus):
                if a:
                    sends.append((hk, a))
                if b:
                    sends.append((hd, b))
        for handle, (cid, pl) in sends:
            host0.send_l2cap_pdu(handle, cid, pl)
        # the surviving peer also talks back on its own queue
        w.hosts[keep].send_l2cap_pdu(conns[keep][1].handle, back_pdu[0], back_pdu[1])
        for _ in range(cfg['delay']):
            if not w.loop.step(allow_timers=False):
                break
        closing = conns[drop][0] if cfg['closer'] == 'local' else conns[drop][1]
        task = w.loop.create_task(closing.disconnect())
        w.loop.run_quiescent(max_steps=2_000_000)
        if not task.done():
            task.cancel()
            w.loop.run_quiescent()
        elif not task.cancelled():
            task.exception()
        # health after the flush: one more PDU to the survivor
        post = (MULTI_CID[1], payload(L - 3, salt + 300))
        host0.send_l2cap_pdu(hk, post[0], post[1])
        w.loop.run_quiescent(max_steps=2_000_000)
        excs = list(w.loop.exceptions)
        w.loop.exceptions.clear()

        out = []
        sig0 = {'transport': tr}
        ctx = f'multi {cfg}'
        starts = {0, 2} if kind_of[keep] == 'classic' else {0}
        frames = [l2cap_frame(c, p) for c, p in keep_pdus + [post]]
        fr = check_fragments([p for p in net.wire[0] if ((p[1] | (p[2] << 8)) & 0xFFF) == hk], frames, L, hk, starts)
        if fr:
            out.append(('multi_fragment', dict(sig0, rule=fr[0]), f'{ctx}: fragment stream of the surviving connection at host 0: {fr[2]} (queue backlog at flush: {info["backlog_at_flush"]})'))
        pk = conns[keep][1].handle
        exp = keep_pdus + [post]
        for where, log in (('host_event', net.events[keep]), ('l2cap_manager', net.l2cap[keep])):
            got = [(c, p) for h, c, p in log if h == pk]
            stray = [h for h, c, p in log if h != pk]
            res = stream_check(exp, got)
            if stray:
                res = ('wrong_handle', None)
            if res:
                out.append(
                    (
                        'multi_delivery',
                        dict(sig0, kind=res[0], link='survivor'),
                        f'{ctx}: device {keep} (link kept) got payload lengths {[len(p) for _, p in got]} instead of {[len(p) for _, p in exp]} after the link to device {drop} was closed '
                        f'(queue backlog at flush: {info["backlog_at_flush"]})' + (f'; loop exception {excs[0]}' if excs else ''),
                    )
                )
                break
        # survivor -> device 0
        got0 = [(c, p) for h, c, p in net.events[0] if h == hk]
        res = stream_check([back_pdu], got0)
        if res:
            out.append(('multi_delivery', dict(sig0, kind=res[0], link='survivor_reverse'), f'{ctx}: device 0 got {[len(p) for _, p in got0]} from device {keep}, expected one PDU of {len(back_pdu[1])} bytes'))
        # the closed link: lossy but never corrupt, never elsewhere
        pd = conns[drop][1].handle
        gotd = [(c, p) for h, c, p in net.events[drop] if h == pd]
        res = lossy_stream_check(drop_pdus, gotd)
        if res or any(h != pd for h, c, p in net.events[drop]):
            out.append(('multi_delivery', dict(sig0, kind=res[0] if res else 'wrong_handle', link='closed'), f'{ctx}: device {drop} (link closed) got payload lengths {[len(p) for _, p in gotd]}, sent {[len(p) for _, p in drop_pdus]}'))
        info['keep_fragments'] = sum(-(-len(f) // L) for f in frames)
        return out, info
    finally:
        net.close()


# ---------------------------------------------------------------------------
# dual: BR/EDR and LE links between the same two devices
# ---------------------------------------------------------------------------
def dual_configs(quick):
    geoms = [(27, 3, 1021, 4), (5, 1, 27, 2), (251, 2, 8, 1)]
    if not quick:
        geoms += [(27, 64, 27, 64), (8, 2, 5, 2), (1021, 1, 251, 64), (23, 2, 255, 2)]
    out = []
    for g in geoms:
        for addr in ('public', 'random'):
            for first in ('le', 'classic'):
                out.append({'geom': list(g), 'le_addr': addr, 'first': first})
    return out


def dual_plans(Lle, Lcl, quick):
    """Traffic plans: lists of (sender device, link, payload length)."""
    cls = {'le': [0, Lle - 4, Lle - 3, 2 * Lle - 4, 3 * Lle - 3], 'classic': [0, Lcl - 4, Lcl - 3, 2 * Lcl - 4, 3 * Lcl - 3]}
    plans = []
    # every single (sender, link, class)
    for s in (0, 1):
        for link in ('le', 'classic'):
            for n in cls[link]:
                plans.append([(s, link, n)])
    # all four streams at once, one or two PDUs each, interleaved in both orders
    rng = range(3) if quick else range(5)
    for a, b in itertools.product(rng, repeat=2):
        p = []
        for s in (0, 1):
            p += [(s, 'classic', cls['classic'][a]), (s, 'le', cls['le'][b])]
        plans.append(p)
        plans.append(list(reversed(p)))
        plans.append(p + [(0, 'le', cls['le'][a]), (1, 'classic', cls['classic'][b]), (0, 'classic', cls['classic'][b]), (1, 'le', cls['le'][a])])
    plans.append([(0, 'classic', 65531), (0, 'le', Lle + 1), (1, 'classic', 0), (1, 'le', 3 * Lle)])
    return plans


class Dual:
    def __init__(self, cfg, seed=0):
        Lle, Nle, Lcl, Ncl = cfg['geom']
        self.cfg = cfg
        self.L = {'le': Lle, 'classic': Lcl}
        a = {'le_acl_data_packet_length': Lle, 'total_num_le_acl_data_packets': Nle, 'acl_data_packet_length': Lcl, 'total_num_acl_data_packets': Ncl}
        self.net = Net(2, {0: dict(a), 1: dict(a)}, True, True, seed)
        try:
            public = cfg['le_addr'] == 'public'
            if cfg['first'] == 'le':
                le = self.net.connect_le(0, 1, public)
                cl = self.net.connect_classic(0, 1)
            else:
                cl = self.net.connect_classic(0, 1)
                le = self.net.connect_le(0, 1, public)
            # handle of each link at each device
            self.handle = {'le': (le[0].handle, le[1].handle), 'classic': (cl[0].handle, cl[1].handle)}
            self.net.clear()
        except BaseException:
            self.net.close()
            raise

    def close(self):
        self.net.close()

    def run(self, plan, salt):
        from ..props.c05 import check_fragments, l2cap_frame, payload

        net = self.net
        w = net.w
        net.clear()
        sent = {(s, link): [] for s in (0, 1) for link in ('le', 'classic')}
        for k, (s, link, n) in enumerate(plan):
            cid = MULTI_CID[k % 3]
            # content is unique per PDU (distinct offsets), so a PDU arriving on the wrong
            # link is recognisable
            pl = payload(n, salt + 7 * k + 1)
            sent[(s, link)].append((k, cid, pl))
            w.hosts[s].send_l2cap_pdu(self.handle[link][s], cid, pl)
        w.loop.run_quiescent(max_steps=2_000_000)
        excs = list(w.loop.exceptions)
        w.loop.exceptions.clear()
        out = []
        sig0 = {'le_addr': self.cfg['le_addr']}
        ctx = f'dual {self.cfg} plan {plan}'
        for s in (0, 1):
            r = 1 - s
            for link in ('le', 'classic'):
                hs, hr = self.handle[link][s], self.handle[link][r]
                other = 'classic' if link == 'le' else 'le'
                items = sent[(s, link)]
                frames = [l2cap_frame(c, p) for _, c, p in items]
                starts = {0, 2} if link == 'classic' else {0}
                fr = check_fragments([p for p in net.wire[s] if ((p[1] | (p[2] << 8)) & 0xFFF) == hs], frames, self.L[link], hs, starts)
                if fr:
                    out.append(('dual_fragment', dict(sig0, rule=fr[0], link=link), f'{ctx}: host {s} {link} link: {fr[2]}'))
                exp = [(c, p) for _, c, p in items]
                for where, log in (('host_event', net.events[r]), ('l2cap_manager', net.l2cap[r])):
                    got = [(c, p) for h, c, p in log if h == hr]
                    # PDUs of the OTHER link must not show up here
                    foreign = [(c, p) for (c, p) in got if (c, p) not in exp]
                    res = stream_check(exp, [g for g in got if g in exp])
                    if res or foreign:
                        arrived = 'none'
                        if res and res[1] is not None:
                            lost = exp[res[1]]
                            ho = self.handle[other][r]
                            if any(h == ho and (c, p) == lost for h, c, p in log):
                                arrived = other
                            elif any((c, p) == lost for h, c, p in log):
                                arrived = 'unknown_handle'
                        kind = res[0] if res else 'foreign_pdu'
                        out.append(
                            (
                                'dual_delivery',
                                dict(sig0, kind=kind, sent_on=link, arrived_on=arrived if res else 'n/a'),
                                f'{ctx}: device {r} on its {link} handle 0x{hr:03x} got payload lengths {[len(p) for _, p in got]}, '
                                f'{[len(p) for _, p in exp]} were sent on that link by device {s}'
                                + (f' (the missing PDU arrived on the {arrived} handle)' if arrived not in ('none', 'n/a') else '')
                                + (f'; loop exception {excs[0]}' if excs else ''),
                            )
                        )
                        break
        # nothing may arrive on a handle that is neither link
        for r in (0, 1):
            known = {self.handle['le'][r], self.handle['classic'][r]}
            if any(h not in known for h, c, p in net.events[r]):
                out.append(('dual_delivery', dict(sig0, kind='unknown_handle', sent_on='n/a', arrived_on='n/a'), f'{ctx}: device {r} got PDUs on a handle of no connection'))
        return out
