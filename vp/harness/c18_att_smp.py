"""C18 / att and smp: every registered ATT PDU class and SMP command class, derived
list attributes of ATT responses, unknown op-codes / command codes."""
from __future__ import annotations

import struct

from . import c18_common as cm
from .c18_common import Adapter, Rec, Slot


def handles_candidates():
    lists = [[], [0x0001], [0x0001, 0xFFFF], [0x0000, 0x00FF, 0x0100, 0x8000, 0xFFFF]]
    return [(f'handles{len(l)}', l, b''.join(struct.pack('<H', h) for h in l)) for l in lists]


def lv_candidates(rec: Rec):
    out = []
    for label, lens in (('none', []), ('one0', [0]), ('one1', [1]), ('two', [3, 0]), ('big', [255, 256, 1])):
        tuples = [(n, rec.fill(n, 5 + i)) for i, n in enumerate(lens)]
        ref = b''.join(struct.pack('<H', n) + v for n, v in tuples)
        out.append((f'lv_{label}', tuples, ref))
    return out


class AttAdapter(Adapter):
    proto = 'att'

    def classes(self):
        from bumble import att

        return sorted(att.ATT_PDU.pdu_classes.items(), key=lambda kv: int(kv[0]))

    def custom(self, cls, name, spec, rec):
        from bumble.core import UUID

        if spec == UUID.parse_uuid_2:
            return [(f'uuid16:{v:#x}', cm.mk_uuid(v.to_bytes(2, 'little')), v.to_bytes(2, 'little')) for v in (cm.REG16, 0x2800, 0xFFFF, 0x0000)]
        if spec == UUID.parse_uuid:
            # only 16- and 128-bit UUIDs exist in ATT PDUs (Vol 3 Part F 3.2.1)
            return cm.uuid_candidates(widths=(2, 16))
        if name == 'set_of_handles':
            return handles_candidates()
        if name == 'length_value_tuple_list':
            return lv_candidates(rec)
        return None

    def joint(self, cls, rec):
        n = cls.__name__
        if n == 'ATT_Find_Information_Response':
            c = []
            e16 = [(1, b'\x00\x28'), (0xFFFF, b'\x03\x28')]
            e128 = [(0x0010, bytes(range(16)))]
            for label, fmt, ents in (('fmt1x2', 1, e16), ('fmt1x0', 1, []), ('fmt2x1', 2, e128), ('fmt1x1', 1, e16[:1])):
                data = b''.join(struct.pack('<H', h) + u for h, u in ents)
                c.append((label, {'format': fmt, 'information_data': data, 'information': ents}, bytes([fmt]) + data))
            return {'format': (('format', 'information_data', 'information'), c)}
        if n == 'ATT_Read_By_Type_Response':
            c = []
            for label, ln, ents in (
                ('len4x2', 4, [(1, b'\xaa\xbb'), (0xFFFF, b'\x00\x01')]),
                ('len2x1', 2, [(7, b'')]),
                ('len255x1', 255, [(9, rec.fill(253, 3))]),
                ('len3x0', 3, []),
            ):
                data = b''.join(struct.pack('<H', h) + v for h, v in ents)
                c.append((label, {'length': ln, 'attribute_data_list': data, 'attributes': ents}, bytes([ln]) + data))
            return {'length': (('length', 'attribute_data_list', 'attributes'), c)}
        if n == 'ATT_Read_By_Group_Type_Response':
            c = []
            for label, ln, ents in (
                ('len6x2', 6, [(1, 5, b'\x00\x18'), (6, 0xFFFF, b'\x01\x18')]),
                ('len4x1', 4, [(1, 2, b'')]),
                ('len20x1', 20, [(0x10, 0x20, bytes(range(16)))]),
                ('len6x0', 6, []),
            ):
                data = b''.join(struct.pack('<HH', a, b) + v for a, b, v in ents)
                c.append((label, {'length': ln, 'attribute_data_list': data, 'attributes': ents}, bytes([ln]) + data))
            return {'length': (('length', 'attribute_data_list', 'attributes'), c)}
        if n == 'ATT_Find_By_Type_Value_Response':
            c = []
            for label, ents in (('x2', [(1, 5), (0xFFFE, 0xFFFF)]), ('x0', []), ('x1', [(0x0100, 0x00FF)])):
                data = b''.join(struct.pack('<HH', a, b) for a, b in ents)
                c.append((label, {'handles_information_list': data, 'handles_information': ents}, data))
            return {'handles_information_list': (('handles_information_list', 'handles_information'), c)}
        return {}

    def decode(self, key, cls, data):
        from bumble import att

        return att.ATT_PDU.from_bytes(data)

    def header_ref(self, key, cls, values, body):
        return bytes([int(key)])


class SmpAdapter(Adapter):
    proto = 'smp'

    def classes(self):
        from bumble import smp

        return sorted(smp.SMP_Command.smp_classes.items(), key=lambda kv: int(kv[0]))

    def joint(self, cls, rec):
        from bumble import hci

        if cls.__name__ == 'SMP_Identity_Address_Information_Command':
            c = []
            for t in (0, 1, 2, 3, 0xFF):
                for label, ab in cm.ADDR_PATTERNS[:4] if t < 2 else cm.ADDR_PATTERNS[1:2]:
                    c.append((f'type{t}:{label}', {'addr_type': t, 'bd_addr': hci.Address(ab, hci.AddressType(t))}, bytes([t]) + ab))
            return {'addr_type': (('addr_type', 'bd_addr'), c)}
        return {}

    def decode(self, key, cls, data):
        from bumble import smp

        return smp.SMP_Command.from_bytes(data)

    def header_ref(self, key, cls, values, body):
        return bytes([int(key)])


def check_unknown(rec: Rec, proto: str):
    """A PDU with an op-code no class is registered for parses into the generic class;
    it must re-serialise to the same bytes."""
    if proto == 'att':
        from bumble import att

        known = {int(k) for k in att.ATT_PDU.pdu_classes}
        parse = att.ATT_PDU.from_bytes
        unit = 'ATT_PDU'
        codes = [0x00, 0x14, 0x1A, 0x1C, 0x1F, 0x22, 0x3F, 0x53, 0x7F, 0x92, 0xFF]
    else:
        from bumble import smp

        known = {int(k) for k in smp.SMP_Command.smp_classes}
        parse = smp.SMP_Command.from_bytes
        unit = 'SMP_Command'
        codes = [0x00, 0x0F, 0x10, 0x7F, 0x80, 0xFF]
    for code in rec.seq([c for c in codes if c not in known]):
        for n in (0, 1, 17):
            data = bytes([code]) + rec.fill(n, code)
            key = ('unknown', proto, code, n)
            case = {'unit': 'unknown', 'proto': proto, 'code': code, 'n': n}
            try:
                obj = parse(data)
                out = bytes(obj)
            except Exception as e:
                rec.bad(key, 'unknown_code', {'unit': unit, 'how': f'exception:{cm.exc_name(e)}'}, f'{unit} with unregistered code {code:#x}: {cm.exc_name(e)}: {e}', case)
                continue
            if out != data:
                rec.bad(key, 'unknown_code', {'unit': unit, 'how': 'bytes_differ'}, f'{unit} with unregistered code {code:#x}: parsed {data.hex()} re-serialises to {out.hex()}', case)
            else:
                rec.ok(key)


def run_att(rec: Rec, k: int):
    cm.run_adapter(AttAdapter(), rec, k)
    check_unknown(rec, 'att')


def run_smp(rec: Rec, k: int):
    cm.run_adapter(SmpAdapter(), rec, k)
    check_unknown(rec, 'smp')
