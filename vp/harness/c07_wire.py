"""Independent L2CAP wire decoder, credit-ledger monitor and CID-translating shim for C07
(LE / enhanced credit-based channels).

Nothing in here imports bumble.  Everything is computed from the raw bytes of the L2CAP frames that the two hosts
hand to their ACL send path (`Host.send_acl_sdu`), plus the *moment* at which each frame is delivered to the other
host (`Host.on_l2cap_pdu`).  Formats: Bluetooth Core Vol 3 Part A, 3.1 (basic header), 3.4 (K-frames), 4 (signalling:
0x14/0x15 LE credit based connection request/response, 0x16 flow control credit, 0x17/0x18 credit based connection
request/response, 0x06/0x07 disconnection).

Terminology: side 0 / side 1 are the two devices.  The *wire view* is the one in which the shimmed side's dynamic
CIDs appear translated (+delta); with the shim off it is simply what the hosts send.
"""
from __future__ import annotations

import struct

LE_SIG_CID = 0x0005
DYN_FIRST, DYN_LAST = 0x0040, 0x007F

C_REJECT = 0x01
C_DISC_REQ = 0x06
C_DISC_RSP = 0x07
C_LE_REQ = 0x14
C_LE_RSP = 0x15
C_CREDIT = 0x16
C_ECRED_REQ = 0x17
C_ECRED_RSP = 0x18


class WireError(Exception):
    """A frame that the decoder cannot make sense of (reported as a violation by the monitor's user)."""


def u16(b, off):
    if off + 2 > len(b):
        raise WireError(f'short field at {off} in {bytes(b).hex()}')
    return b[off] | (b[off + 1] << 8)


def decode(frame: bytes) -> dict:
    """One complete L2CAP PDU (basic header + payload) -> dict.  Pure function of the bytes."""
    if len(frame) < 4:
        raise WireError(f'frame shorter than the basic header: {frame.hex()}')
    length, cid = u16(frame, 0), u16(frame, 2)
    payload = frame[4:]
    if length != len(payload):
        raise WireError(f'basic header length {length} but {len(payload)} payload bytes follow (cid {cid:#06x})')
    if cid != LE_SIG_CID:
        return {'kind': 'data', 'cid': cid, 'payload': payload}
    if len(payload) < 4:
        raise WireError(f'signalling frame shorter than its header: {payload.hex()}')
    code, ident, dlen = payload[0], payload[1], u16(payload, 2)
    data = payload[4:]
    if dlen != len(data):
        raise WireError(f'signalling length {dlen} but {len(data)} bytes follow (code {code:#04x})')
    d = {'kind': 'sig', 'code': code, 'id': ident, 'data': data}
    if code == C_LE_REQ:
        if len(data) != 10:
            raise WireError(f'LE credit based connection request with {len(data)} data bytes')
        d.update(psm=u16(data, 0), scids=[u16(data, 2)], mtu=u16(data, 4), mps=u16(data, 6), credits=u16(data, 8))
    elif code == C_LE_RSP:
        if len(data) != 10:
            raise WireError(f'LE credit based connection response with {len(data)} data bytes')
        d.update(dcids=[u16(data, 0)], mtu=u16(data, 2), mps=u16(data, 4), credits=u16(data, 6), result=u16(data, 8))
    elif code == C_CREDIT:
        if len(data) != 4:
            raise WireError(f'flow control credit with {len(data)} data bytes')
        d.update(cid=u16(data, 0), credits=u16(data, 2))
    elif code == C_ECRED_REQ:
        if len(data) < 10 or len(data) % 2 or len(data) > 8 + 10:
            raise WireError(f'credit based connection request with {len(data)} data bytes')
        d.update(
            psm=u16(data, 0),
            mtu=u16(data, 2),
            mps=u16(data, 4),
            credits=u16(data, 6),
            scids=[u16(data, o) for o in range(8, len(data), 2)],
        )
    elif code == C_ECRED_RSP:
        if len(data) < 8 or len(data) % 2:
            raise WireError(f'credit based connection response with {len(data)} data bytes')
        d.update(
            mtu=u16(data, 0),
            mps=u16(data, 2),
            credits=u16(data, 4),
            result=u16(data, 6),
            dcids=[u16(data, o) for o in range(8, len(data), 2)],
        )
    elif code in (C_DISC_REQ, C_DISC_RSP):
        if len(data) != 4:
            raise WireError(f'disconnection request/response with {len(data)} data bytes')
        d.update(dcid=u16(data, 0), scid=u16(data, 2))
    return d


def encode_credit(ident: int, cid: int, credits: int) -> bytes:
    """Signalling payload (what travels on CID 5) of an LE Flow Control Credit packet, from the spec."""
    return struct.pack('<BBHHH', C_CREDIT, ident, 4, cid, credits)


# ---------------------------------------------------------------------------
# CID-translating shim
# ---------------------------------------------------------------------------
def _patch16(b: bytearray, off: int, delta: int):
    v = u16(b, off)
    if DYN_FIRST <= v <= 0xFFFF and v != 0:
        struct.pack_into('<H', b, off, (v + delta) & 0xFFFF)


def translate(frame: bytes, from_shimmed: bool, delta: int) -> bytes:
    """Rewrite every field that names a dynamic CID *of the shimmed side*.

    from_shimmed=True : frame produced by the shimmed device, local view -> wire view (+delta)
    from_shimmed=False: frame produced by the other device, wire view -> shimmed device's local view (-delta)
    Fields naming the other device's CIDs are never touched."""
    b = bytearray(frame)
    cid = u16(b, 2)
    if cid != LE_SIG_CID:
        # header CID of a data frame = receiver's channel endpoint
        if not from_shimmed and cid >= DYN_FIRST:
            _patch16(b, 2, -delta)
        return bytes(b)
    code = b[4]
    base = 8  # first byte of the signalling data
    n = len(b)
    if from_shimmed:
        if code == C_LE_REQ:
            _patch16(b, base + 2, delta)  # scid
        elif code == C_LE_RSP:
            _patch16(b, base + 0, delta)  # dcid (0 = refused stays 0)
        elif code == C_CREDIT:
            _patch16(b, base + 0, delta)  # cid = sender's own endpoint
        elif code == C_ECRED_REQ:
            for off in range(base + 8, n, 2):
                _patch16(b, off, delta)
        elif code == C_ECRED_RSP:
            for off in range(base + 8, n, 2):
                _patch16(b, off, delta)
        elif code == C_DISC_REQ:
            _patch16(b, base + 2, delta)  # scid = requester's endpoint
        elif code == C_DISC_RSP:
            _patch16(b, base + 0, delta)  # dcid = responder's endpoint
    else:
        if code == C_DISC_REQ:
            _patch16(b, base + 0, -delta)  # dcid = the shimmed device's endpoint
        elif code == C_DISC_RSP:
            _patch16(b, base + 2, -delta)  # scid = the (shimmed) requester's endpoint
    return bytes(b)


# ---------------------------------------------------------------------------
# the monitor
# ---------------------------------------------------------------------------
class Dir:
    """One direction of one channel, as reconstructed from the wire."""

    __slots__ = (
        'sender', 'peer_mtu', 'peer_mps', 'granted', 'sent', 'stream', 'sdu_need', 'sdus', 'frames',
        'credit_frames', 'min_ledger', 'zero_credit_waits', 'initial', 'complete_len', 'max_pdu',
    )

    def __init__(self, sender, peer_mtu, peer_mps, initial):
        self.sender = sender
        self.peer_mtu = peer_mtu  # receiver's MTU: bound on every SDU length
        self.peer_mps = peer_mps  # receiver's MPS: bound on every frame payload
        self.initial = initial
        self.granted = initial  # credits the receiver has given, counted when *delivered* to the sender
        self.sent = 0  # data frames sent
        self.stream = bytearray()  # SDU payload bytes in wire order (= the byte stream)
        self.sdu_need = None  # bytes still missing from the current SDU (None = between SDUs)
        self.sdus = []  # SDU lengths
        self.frames = []  # frame payload lengths
        self.credit_frames = []  # credit values of flow-control frames delivered to the sender
        self.min_ledger = initial
        self.zero_credit_waits = 0  # times the ledger reached 0 after a send
        self.complete_len = 0  # length of `stream` when the last SDU completed (what a correct receiver has delivered)
        self.max_pdu = 0  # largest L2CAP PDU (basic header included) sent


class Chan:
    __slots__ = ('client', 'ccid', 'scid', 'dirs', 'enhanced')

    def __init__(self, client, ccid, scid, enhanced):
        self.client = client  # side that sent the connection request
        self.ccid = ccid  # client's endpoint (wire view)
        self.scid = scid  # server's endpoint (wire view)
        self.enhanced = enhanced
        self.dirs = {}  # sender side -> Dir


class Monitor:
    """Feed with sent(side, frame_bytes) at the moment a host hands a frame to its ACL path (wire view) and with
    delivered(side) at the moment the *next* frame in FIFO order reaches host `side`.  Violations of the wire-level
    clauses of C07 are appended to self.problems as (check, signature-dict, message)."""

    def __init__(self):
        self.inflight = {0: [], 1: []}  # destination side -> decoded frames sent, not yet delivered
        self.requests = {}  # (client side, identifier) -> decoded request
        self.chans = []
        self.by_endpoint = {}  # (owner side, cid) -> Chan
        self.problems = []
        self.log = []  # compact trace for messages
        self.n_sig = 0
        self.n_data = 0
        self.refused = []
        self.orphans = []  # data frames sent ahead of the response that opens their channel

    # -- helpers -------------------------------------------------------------
    def problem(self, check, sig, msg):
        self.problems.append((check, sig, msg))

    def chan_for_data(self, sender, cid):
        """Data frame header CID is the receiver's endpoint."""
        return self.by_endpoint.get((1 - sender, cid))

    # -- events --------------------------------------------------------------
    def sent(self, side, frame: bytes):
        try:
            d = decode(frame)
        except WireError as e:
            self.problem('wire_malformed', {'side': side}, f'side {side} sent an undecodable frame: {e}')
            self.inflight[1 - side].append({'kind': 'bad'})
            return
        self.inflight[1 - side].append(d)
        if d['kind'] == 'sig':
            self.n_sig += 1
            self._sig_sent(side, d)
        else:
            self._data_sent(side, d)

    def delivered(self, side):
        q = self.inflight[side]
        if not q:
            self.problem('harness_delivery', {'side': side}, f'delivery to side {side} with nothing in flight')
            return None
        d = q.pop(0)
        if d['kind'] == 'sig':
            self._sig_delivered(side, d)
        return d

    # -- signalling ----------------------------------------------------------
    def _sig_sent(self, side, d):
        code = d['code']
        if code in (C_LE_REQ, C_ECRED_REQ):
            self.requests[(side, d['id'])] = d
            self.log.append(f'{side}>REQ{"e" if code == C_ECRED_REQ else ""}{d["scids"]} mtu={d["mtu"]} mps={d["mps"]} cr={d["credits"]}')
        elif code in (C_LE_RSP, C_ECRED_RSP):
            self.log.append(f'{side}>RSP{d["dcids"]} mtu={d["mtu"]} mps={d["mps"]} cr={d["credits"]} res={d["result"]}')
            self._response_sent(side, d)
        elif code == C_CREDIT:
            self.log.append(f'{side}>CR[{d["cid"]:#x}]+{d["credits"]}')
            if (side, d['cid']) not in self.by_endpoint:
                self.problem(
                    'credit_unknown_cid',
                    {'what': 'credit_for_unknown_endpoint'},
                    f'side {side} sent credits naming endpoint {d["cid"]:#06x}, which is not one of its open endpoints',
                )
        elif code == C_REJECT:
            self.log.append(f'{side}>REJECT')
            self.problem('command_reject', {'what': 'command_reject'}, f'side {side} sent a Command Reject: {d["data"].hex()}')
        else:
            self.log.append(f'{side}>sig{code:#04x}')

    def _response_sent(self, server, d):
        """The server's half of a channel exists from the moment it sends a successful response (it may send data
        right behind it); the client's half is funded when the response is delivered."""
        client = 1 - server
        req = self.requests.pop((client, d['id']), None)
        if req is None:
            self.problem('response_unmatched', {'what': 'response_without_request'}, f'response id {d["id"]} from side {server} matches no request')
            return
        enhanced = d['code'] == C_ECRED_RSP
        if enhanced != (req['code'] == C_ECRED_REQ):
            self.problem('response_kind', {'what': 'response_kind_mismatch'}, f'request code {req["code"]:#04x} answered with {d["code"]:#04x}')
        if d['result'] != 0:
            self.refused.append(d['result'])
            return
        if len(d['dcids']) != len(req['scids']):
            self.problem(
                'response_cid_count', {'what': 'dcid_count'}, f'{len(req["scids"])} channels requested, {len(d["dcids"])} destination CIDs in the successful response'
            )
        d['_chans'] = []
        for ccid, scid in zip(req['scids'], d['dcids']):
            if not (DYN_FIRST <= scid <= DYN_LAST):
                self.problem('response_bad_cid', {'what': 'dcid_out_of_range'}, f'destination CID {scid:#06x} outside the LE dynamic range')
                continue
            ch = Chan(client, ccid, scid, enhanced)
            # client sends: bounded by the server's mtu/mps, funded by the server's initial credits, and v.v.
            cd = Dir(client, d['mtu'], d['mps'], d['credits'])
            cd.granted = 0  # until the response is delivered
            ch.dirs[client] = cd
            ch.dirs[server] = Dir(server, req['mtu'], req['mps'], req['credits'])
            self.chans.append(ch)
            self.by_endpoint[(client, ccid)] = ch
            self.by_endpoint[(server, scid)] = ch
            d['_chans'].append(ch)
            for o_side, o in [x for x in self.orphans]:
                if o_side == server and o['cid'] == ccid:
                    self.orphans.remove((o_side, o))
                    self._account(ch, server, o)

    def _sig_delivered(self, side, d):
        """side = receiving host."""
        code = d['code']
        sender = 1 - side
        if code in (C_LE_RSP, C_ECRED_RSP):
            # the client holds the server's initial credits from the moment the response reaches it
            for ch in d.get('_chans', ()):
                dr = ch.dirs[side]
                dr.granted += dr.initial
                dr.min_ledger = dr.granted - dr.sent
        elif code == C_CREDIT:
            # credits from `sender` fund data sent by `side` on the channel whose far endpoint is d['cid']
            ch = self.by_endpoint.get((sender, d['cid']))
            if ch is None:
                return  # already reported at send time
            dr = ch.dirs[side]
            dr.granted += d['credits']
            dr.credit_frames.append(d['credits'])

    # -- data ----------------------------------------------------------------
    def _data_sent(self, side, d):
        self.n_data += 1
        cid, payload = d['cid'], d['payload']
        ch = self.chan_for_data(side, cid)
        if ch is None:
            if cid >= DYN_FIRST:
                pending = any(c == 1 - side and cid in r['scids'] for (c, _), r in self.requests.items())
                if pending:
                    # data on a channel whose connection request this side has not answered yet
                    self.problem(
                        'data_before_response',
                        {'what': 'data_sent_before_connection_response'},
                        f'side {side} sent {len(payload)} data bytes to endpoint {cid:#06x} before sending the connection response that opens the channel',
                    )
                    self.orphans.append((side, d))
                    self.log.append(f'{side}>D?[{cid:#x}]{len(payload)}')
                else:
                    self.problem('data_unknown_cid', {'what': 'data_on_unknown_cid'}, f'side {side} sent {len(payload)} bytes on CID {cid:#06x}, not an open endpoint of the peer')
            return
        self._account(ch, side, d)

    def _account(self, ch, side, d):
        cid, payload = d['cid'], d['payload']
        dr = ch.dirs[side]
        which = 'client' if side == ch.client else 'server'
        kind = 'enhanced' if ch.enhanced else 'le_coc'
        self.log.append(f'{side}>D[{cid:#x}]{len(payload)}')
        # credit discipline: one credit must be held when the frame is sent
        ledger = dr.granted - dr.sent
        if ledger < 1:
            self.problem(
                'credit_overdraft',
                {'what': 'frame_without_credit', 'sender': which, 'kind': kind},
                f'{which} (side {side}) sent data frame #{dr.sent + 1} on {kind} channel {ch.ccid:#x}/{ch.scid:#x} holding {ledger} credits '
                f'(granted so far {dr.granted}, frames sent {dr.sent})',
            )
        dr.sent += 1
        dr.min_ledger = min(dr.min_ledger, dr.granted - dr.sent)
        if dr.granted - dr.sent == 0:
            dr.zero_credit_waits += 1
        dr.frames.append(len(payload))
        dr.max_pdu = max(dr.max_pdu, 4 + len(payload))
        if len(payload) > dr.peer_mps:
            self.problem(
                'frame_exceeds_mps',
                {'what': 'frame_gt_peer_mps', 'sender': which, 'kind': kind},
                f'{which} sent a {len(payload)}-byte frame; the peer\'s MPS is {dr.peer_mps}',
            )
        if len(payload) == 0:
            self.problem('frame_empty', {'what': 'empty_frame', 'sender': which, 'kind': kind}, f'{which} spent a credit on an empty frame')
            return
        # reassembly straight from the spec: first frame of an SDU starts with the 2-byte SDU length
        if dr.sdu_need is None:
            if len(payload) < 2:
                self.problem('sdu_header_split', {'what': 'first_frame_lt_2', 'sender': which, 'kind': kind}, f'{which}: first frame of an SDU has {len(payload)} byte(s)')
                return
            n = u16(payload, 0)
            dr.sdus.append(n)
            if n > dr.peer_mtu:
                self.problem(
                    'sdu_exceeds_mtu',
                    {'what': 'sdu_gt_peer_mtu', 'sender': which, 'kind': kind},
                    f'{which} started an SDU of {n} bytes; the peer\'s MTU is {dr.peer_mtu}',
                )
            dr.sdu_need = n
            body = payload[2:]
        else:
            body = payload
        if len(body) > dr.sdu_need:
            self.problem(
                'sdu_overrun',
                {'what': 'frames_exceed_sdu_length', 'sender': which, 'kind': kind},
                f'{which}: frame carries {len(body)} bytes but only {dr.sdu_need} remain of the announced SDU',
            )
            body = body[: dr.sdu_need]
        dr.stream += body
        dr.sdu_need -= len(body)
        if dr.sdu_need == 0:
            dr.sdu_need = None
            dr.complete_len = len(dr.stream)

    # -- summary -------------------------------------------------------------
    def channel(self, client_side, index=0):
        chs = [c for c in self.chans if c.client == client_side]
        return chs[index] if index < len(chs) else None

    def trace(self, limit=60):
        lg = self.log
        if len(lg) > limit:
            lg = lg[: limit // 2] + ['...'] + lg[-limit // 2 :]
        return ' '.join(lg)
