"""C18 shared machinery: recorder, value comparison, boundary domains, an
independent encoder for HCI_Object-style primitive field specs, and the generic
bounded-exhaustive round-trip engine for classes that declare `fields`.

Nothing here calls the code under test to *produce expectations*: expected field
values are the generator's own values, expected bytes are produced by the
encoders in this file (struct / int.to_bytes on the generator's values).
The real bumble code is only the thing being exercised.
"""
from __future__ import annotations

import itertools
import struct
from typing import Any, Callable

from .. import core


# ---------------------------------------------------------------------------
# recorder
# ---------------------------------------------------------------------------
class Rec:
    """Wraps a core.Stats; optionally keeps (case key -> outcome) so that two
    passes over the same space in one process can be compared (history clause)."""

    def __init__(self, name: str, seed: int = 0, keep_outcomes: bool = False):
        self.st = core.Stats(name)
        self.seed = seed
        self.keep = keep_outcomes
        self.outcomes: dict[str, str] = {}
        self.labels: dict[str, str] = {}
        self.order = 1  # 1 = forward, -1 = reversed visiting order

    def seq(self, items):
        items = list(items)
        return items if self.order > 0 else items[::-1]

    def ok(self, key, nontrivial=True):
        self.st.case(key, None, nontrivial)
        if self.keep:
            self._out(key, 'ok')

    def bad(self, key, check: str, sig: dict, msg: str, case: Any):
        self.st.case(key, None, True)
        self.st.violation(check, sig, msg, case)
        if self.keep:
            self._out(key, core.canon_json(dict(sig, check=check)))

    def note(self, key, outcome: str):
        """A case whose outcome is recorded (for pass comparison) but is neither a
        pass nor a violation (e.g. a documented refusal)."""
        self.st.case(key, None, True)
        if self.keep:
            self._out(key, outcome)

    def _out(self, key, outcome: str):
        d = core.digest(key)
        self.outcomes[d] = outcome
        self.labels[d] = repr(key)[:120]

    def fill(self, n: int, salt: int = 0) -> bytes:
        """n payload bytes; VERIF_SEED only shifts the pattern."""
        s = (self.seed * 37 + salt * 11 + 1) & 0xFF
        return bytes(((s + 7 * i) & 0xFF) for i in range(n))


def exc_name(e: BaseException) -> str:
    return type(e).__name__


# ---------------------------------------------------------------------------
# value comparison (expected = generator's value, got = what bumble parsed)
# ---------------------------------------------------------------------------
def same(exp: Any, got: Any, path: str = '') -> str | None:
    """None if equal, else a short reason '<path>: <why>'.  UUID width and
    address type are part of the value (DESIGN §3 C18)."""
    from bumble import core as bcore
    from bumble import hci

    if isinstance(exp, bcore.UUID):
        if not isinstance(got, bcore.UUID):
            return f'{path}: expected UUID got {type(got).__name__}'
        if len(exp.uuid_bytes) != len(got.uuid_bytes):
            if exp == got:
                return f'{path}: uuid_width {len(exp.uuid_bytes)}->{len(got.uuid_bytes)}'
            return f'{path}: uuid differs {exp!r} {got!r}'
        if exp.uuid_bytes != got.uuid_bytes:
            return f'{path}: uuid differs {exp!r} {got!r}'
        return None
    if isinstance(exp, hci.Address):
        if not isinstance(got, hci.Address):
            return f'{path}: expected Address got {type(got).__name__}'
        if exp.address_bytes != got.address_bytes:
            return f'{path}: address bytes differ'
        if int(exp.address_type) != int(got.address_type):
            return f'{path}: address type {int(exp.address_type)}->{int(got.address_type)}'
        return None
    if isinstance(exp, (bytes, bytearray)):
        if not isinstance(got, (bytes, bytearray)) or bytes(exp) != bytes(got):
            return f'{path}: bytes differ (exp {len(exp)} bytes, got {short(got)})'
        return None
    if isinstance(exp, bool) or isinstance(got, bool):
        return None if bool(exp) == bool(got) and isinstance(got, (bool, int)) else f'{path}: {exp!r} != {got!r}'
    if isinstance(exp, int):
        if not isinstance(got, int) or int(exp) != int(got):
            return f'{path}: {short(exp)} != {short(got)}'
        return None
    if isinstance(exp, str):
        return None if isinstance(got, str) and exp == got else f'{path}: str differs'
    if isinstance(exp, (list, tuple)):
        if not isinstance(got, (list, tuple)):
            try:
                got = list(got)
            except TypeError:
                return f'{path}: expected sequence got {type(got).__name__}'
        if len(exp) != len(got):
            return f'{path}: length {len(exp)} != {len(got)}'
        for i, (a, b) in enumerate(zip(exp, got)):
            r = same(a, b, f'{path}[{i}]')
            if r:
                return r
        return None
    if exp is None:
        return None if got is None else f'{path}: expected None'
    cmp = getattr(exp, 'c18_same', None)
    if cmp is not None:
        return cmp(got, path)
    # objects with declared fields / dataclasses: compare field-wise
    names = field_names_of(exp)
    if names is not None:
        if type(exp) is not type(got):
            return f'{path}: class {type(exp).__name__} != {type(got).__name__}'
        for n in names:
            r = same(getattr(exp, n), getattr(got, n, None), f'{path}.{n}')
            if r:
                return r
        return None
    return None if exp == got else f'{path}: {short(exp)} != {short(got)}'


def field_names_of(obj) -> list[str] | None:
    import dataclasses

    if dataclasses.is_dataclass(obj):
        return [f.name for f in dataclasses.fields(obj) if not f.name.startswith('_') and f.name != 'fields']
    return None


def short(v) -> str:
    if isinstance(v, (bytes, bytearray)):
        h = bytes(v).hex()
        return h if len(h) <= 24 else f'{h[:20]}..({len(v)}B)'
    r = repr(v)
    return r if len(r) <= 40 else r[:37] + '...'


def reason_kind(reason: str) -> str:
    """Collapse a `same()` reason into a stable category for signatures."""
    r = reason.split(': ', 1)[1] if ': ' in reason else reason
    if r.startswith('uuid_width'):
        return 'uuid_width'
    if r.startswith('address type'):
        return 'address_type'
    for k in ('bytes differ', 'length', 'class', 'uuid differs', 'str differs'):
        if r.startswith(k):
            return k.replace(' ', '_')
    return 'value'


def reason_field(reason: str) -> str:
    p = reason.split(':', 1)[0].strip()
    p = p.lstrip('.')
    # strip indexes: a[0].b -> a.b
    out = ''
    skip = False
    for ch in p:
        if ch == '[':
            skip = True
        elif ch == ']':
            skip = False
        elif not skip:
            out += ch
    return out


UUID_ALIAS_SIG = {'unit': 'UUID', 'how': 'from_bytes_returns_equal_uuid_of_other_width'}


def bytes_diff(exp: bytes, got: bytes) -> str:
    if len(exp) != len(got):
        return f'len {len(exp)}->{len(got)}'
    idx = [i for i, (a, b) in enumerate(zip(exp, got)) if a != b]
    return f'{len(idx)} byte(s) differ, first at {idx[0]}' if idx else 'equal'


# ---------------------------------------------------------------------------
# boundary domains for primitive specs.  Candidate = (label, value, ref_bytes)
# ---------------------------------------------------------------------------
U8 = [0, 1, 0x7F, 0x80, 0xFF]
U16 = [0, 1, 0xFF, 0x100, 0x7FFF, 0x8000, 0xFFFF]
U24 = [0, 0xFF, 0x010000, 0x7FFFFF, 0x800000, 0xFFFFFF]
U32 = [0, 1, 0xFFFF, 0x10000, 0x7FFFFFFF, 0x80000000, 0xFFFFFFFF]
U64 = [0, 1, 0xFFFFFFFF, 0x100000000, 0x7FFFFFFFFFFFFFFF, 0x8000000000000000, 0xFFFFFFFFFFFFFFFF]
S8 = [0, -128, -1, 1, 127]
S16 = [0, -32768, -1, 1, 32767]


def lab(v: int) -> str:
    return hex(v) if v >= 0 else str(v)


def prim_domain(spec, rec: Rec, salt: int = 0):
    """Candidates for a primitive spec (simplest first) or None if not primitive."""
    if isinstance(spec, dict) and 'size' in spec and 'serializer' not in spec:
        spec = spec['size']
    if spec == 1:
        return [(lab(v), v, bytes([v])) for v in U8]
    if spec == 2:
        return [(lab(v), v, v.to_bytes(2, 'little')) for v in U16]
    if spec == '>2':
        return [(lab(v), v, v.to_bytes(2, 'big')) for v in U16]
    if spec == 3:
        return [(lab(v), v, v.to_bytes(3, 'little')) for v in U24]
    if spec == 4:
        return [(lab(v), v, v.to_bytes(4, 'little')) for v in U32]
    if spec == '>4':
        return [(lab(v), v, v.to_bytes(4, 'big')) for v in U32]
    if spec == -1:
        return [(lab(v), v, v.to_bytes(1, 'little', signed=True)) for v in S8]
    if spec == -2:
        return [(lab(v), v, v.to_bytes(2, 'little', signed=True)) for v in S16]
    if isinstance(spec, int) and 4 < spec <= 256:
        n = spec
        pats = [('zeros', bytes(n)), ('count', bytes((i + 1) & 0xFF for i in range(n))), ('ones', b'\xff' * n)]
        return [(l, v, v) for l, v in pats]
    if spec == '*':
        return [(f'len{n}', rec.fill(n, salt), rec.fill(n, salt)) for n in (0, 1, 17)]
    if spec == 'v':
        return [(f'len{n}', rec.fill(n, salt), bytes([n]) + rec.fill(n, salt)) for n in (0, 1, 255)]
    return None


def enum_spec_info(spec):
    """If `spec` is the dict made by hci.SpecableEnum/SpecableFlag.type_spec, return
    (enum class, size, byteorder) read from the closure cells, else None."""
    if not isinstance(spec, dict) or 'serializer' not in spec or 'parser' not in spec:
        return None
    ser, par = spec['serializer'], spec['parser']
    qn = getattr(ser, '__qualname__', '')
    if 'type_spec.<locals>' not in qn:
        return None
    try:
        cells = dict(zip(par.__code__.co_freevars, [c.cell_contents for c in par.__closure__]))
        return cells['cls'], cells['size'], cells['byteorder']
    except Exception:
        return None


def enum_domain(spec):
    import enum

    info = enum_spec_info(spec)
    if info is None:
        return None
    cls, size, order = info
    top = (1 << (8 * size)) - 1
    members = []
    seen = set()
    for m in cls:
        v = int(m)
        if v not in seen and 0 <= v <= top:
            seen.add(v)
            members.append(v)
    vals: list[int] = []
    if issubclass(cls, enum.Flag):
        allbits = 0
        for v in members:
            allbits |= v
        vals = [0] + [v for v in members if v] + [allbits & top, top]
    else:
        vals = list(members)
        undefined = next((v for v in range(0, top + 1) if v not in seen), None)
        if undefined is not None:
            vals.append(undefined)
        if top not in seen:
            vals.append(top)
    out, dedup = [], set()
    for v in vals:
        if v in dedup:
            continue
        dedup.add(v)
        out.append((f'{cls.__name__}:{lab(v)}', cls(v), v.to_bytes(size, order)))
    return out


# ---------------------------------------------------------------------------
# generic engine for classes with HCI_Object-style `fields`
# ---------------------------------------------------------------------------
class Slot:
    """One enumerated position: a plain field, or a whole list group (count byte +
    items).  `cands` = [(label, {field: value, ...}, ref_bytes | None)], simplest first."""

    def __init__(self, name: str, cands: list):
        self.name = name
        self.cands = cands


class Adapter:
    """Per-protocol glue.  Subclasses override what differs."""

    proto = ''

    def classes(self) -> list[tuple[Any, type]]:  # (registry key, class)
        raise NotImplementedError

    def fields(self, cls):
        return cls.fields

    def pre_slots(self, key, cls, rec: Rec) -> list[Slot]:
        """Constructor arguments that are not in `fields` (identifier, transaction id)."""
        return []

    def custom(self, cls, name: str, spec, rec: Rec):
        """Candidates [(label, value, ref)] for a non-primitive spec, or None."""
        return None

    def joint(self, cls, rec: Rec) -> dict:
        """{first field name: (field names covered, [(label, {name: value..}, ref)])} for
        adjacent fields whose values must be consistent.  The value dict may also hold
        *derived* attributes (init=False) that the parsed object must show."""
        return {}

    def make(self, key, cls, values: dict):
        return cls(**{n: v for n, v in values.items() if is_init_arg(cls, n)})

    def encode(self, obj) -> bytes:
        return bytes(obj)

    def decode(self, key, cls, data: bytes):
        raise NotImplementedError

    def header_ref(self, key, cls, values: dict, body: bytes) -> bytes:
        """Independent reference of everything before the field bytes."""
        return b''

    def rebuild(self, key, cls, parsed, names: list[str]):
        """Fresh instance from the parsed object's field values (bypasses caches)."""
        return self.make(key, cls, {n: fresh(getattr(parsed, n)) for n in names if is_init_arg(cls, n)})

    def parsed_class_ok(self, cls, parsed) -> bool:
        return type(parsed) is cls

    def signature(self, cls, check: str, sig: dict, at: dict):
        """Violation signature for a failing assignment: the failing class, which fields were
        off their simplest value (and at which boundary), and how it failed."""
        return check, dict(sig, proto=self.proto, cls=cls.__name__, at=at)


def is_init_arg(cls, name: str) -> bool:
    f = getattr(cls, '__dataclass_fields__', {}).get(name)
    return True if f is None else bool(f.init)


def fresh(v):
    """Deep-copy values that carry serialisation caches by rebuilding them from their
    field values."""
    hook = FRESH_HOOKS.get(type(v).__name__)
    if hook:
        return hook(v)
    if isinstance(v, list):
        return [fresh(x) for x in v]
    if isinstance(v, tuple):
        return tuple(fresh(x) for x in v)
    return v


FRESH_HOOKS: dict[str, Callable] = {}


def build_slots(ad: Adapter, key, cls, rec: Rec, problems: list) -> list[Slot] | None:
    slots = list(ad.pre_slots(key, cls, rec))
    salt = 0
    joint = ad.joint(cls, rec)
    covered: set[str] = set()
    for f in ad.fields(cls):
        salt += 1
        if not isinstance(f, list) and f[0] in joint:
            names, cands = joint[f[0]]
            covered.update(names)
            slots.append(Slot('+'.join(names), cands))
            continue
        if not isinstance(f, list) and f[0] in covered:
            continue
        if isinstance(f, list):
            # list group: count byte, then items with the sub-fields interleaved
            sub = []
            for (n, sp) in f:
                d = field_domain(ad, cls, n, sp, rec, salt)
                if d is None:
                    problems.append(f'{cls.__name__}.{n}: no domain for spec {sp!r}')
                    return None
                sub.append((n, d))
            cands = []
            maxlen = max(len(d) for _, d in sub)
            # item counts 0,1,2,3; item i uses candidate (i + shift) of each sub-field
            shapes = [(0, 0), (1, 0), (2, 0), (3, 0)] + [(1, s) for s in range(1, maxlen)] + [(2, 1)]
            for count, shift in shapes:
                vals = {n: [] for n, _ in sub}
                ref = bytes([count])
                okref = True
                for i in range(count):
                    for n, d in sub:
                        l, v, r = d[(i + shift) % len(d)]
                        vals[n].append(v)
                        if r is None:
                            okref = False
                        else:
                            ref += r
                cands.append((f'n{count}s{shift}', vals, ref if okref else None))
            slots.append(Slot('+'.join(n for n, _ in sub), cands))
        else:
            n, sp = f
            d = field_domain(ad, cls, n, sp, rec, salt)
            if d is None:
                problems.append(f'{cls.__name__}.{n}: no domain for spec {sp!r}')
                return None
            slots.append(Slot(n, [(l, {n: v}, r) for l, v, r in d]))
    return slots


def field_domain(ad: Adapter, cls, name, spec, rec: Rec, salt: int):
    d = ad.custom(cls, name, spec, rec)
    if d is not None:
        return d
    d = prim_domain(spec, rec, salt)
    if d is not None:
        return d
    return enum_domain(spec)


def assignments(slots: list[Slot], k: int):
    """Index tuples with at most k slots off candidate 0 (deviation-bounded)."""
    n = len(slots)
    yield (0,) * n
    for depth in range(1, k + 1):
        for pos in itertools.combinations(range(n), depth):
            ranges = [range(1, len(slots[p].cands)) for p in pos]
            for choice in itertools.product(*ranges):
                idx = [0] * n
                for p, c in zip(pos, choice):
                    idx[p] = c
                yield tuple(idx)


def run_class(ad: Adapter, rec: Rec, key, cls, k: int, cap: int | None = None):
    """Round-trip every deviation-bounded assignment of one class."""
    st = rec.st
    problems: list[str] = []
    slots = build_slots(ad, key, cls, rec, problems)
    cname = cls.__name__
    if slots is None:
        for p in problems:
            st.add('unbuildable', p)
        st.notes.append('unbuildable: ' + '; '.join(problems))
        return
    st.add('classes_reached', cname)
    failing_single: set[tuple[int, int]] = set()
    base_fail = None
    names_all = [n for s in slots for n in s.cands[0][1].keys()]
    pre_names = {n for s in ad.pre_slots(key, cls, rec) for n in s.cands[0][1].keys()}
    count = 0
    # phase 1 (<= 1 deviation) always precedes phase 2 (exactly 2), so that attributing a
    # pair failure to one of its components does not depend on the visiting order
    allidx = list(assignments(slots, k))
    phase1 = [i for i in allidx if sum(1 for c in i if c) <= 1]
    phase2 = [i for i in allidx if sum(1 for c in i if c) > 1]
    # the all-simplest assignment is always evaluated first (it decides `base_fail`)
    for idx in phase1[:1] + rec.seq(phase1[1:]) + rec.seq(phase2):
        count += 1
        if cap is not None and count > cap:
            st.cap(f'{ad.proto}: per-class assignment cap {cap} hit for {cname}')
            break
        dev = [(i, c) for i, c in enumerate(idx) if c]
        if len(dev) >= 2 and any(d in failing_single for d in dev):
            st.count('subsumed_by_single_deviation')
            continue
        values: dict = {}
        ref_body = b''
        have_ref = True
        for s, c in zip(slots, idx):
            l, vals, r = s.cands[c]
            values.update(vals)
            if s.name in pre_names or any(n in pre_names for n in vals):
                continue
            if r is None:
                have_ref = False
            elif have_ref:
                ref_body += r
        at = {slots[i].name: slots[i].cands[c][0] for i, c in dev}
        keyc = (ad.proto, cname, idx)
        case = {'proto': ad.proto, 'cls': cname, 'key': int(key) if isinstance(key, int) else repr(key), 'idx': list(idx)}
        res = roundtrip_one(ad, key, cls, values, names_all, ref_body if have_ref else None)
        if not have_ref:
            st.count('cases_without_reference_bytes')
        if res is None:
            rec.ok(keyc, nontrivial=True)
            continue
        check, sig, msg = res
        fp = (check, core.canon_json(sig))
        if not dev:
            base_fail = fp
        elif base_fail is not None and fp == base_fail:
            # the class already fails with every field at its simplest value, in the same way
            st.case(keyc)
            st.count('subsumed_by_base_failure')
            if rec.keep:
                rec.outcomes[core.digest(keyc)] = 'subsumed_by_base:' + fp[1]
            continue
        if len(dev) == 1:
            failing_single.add(dev[0])
        if sig is UUID_ALIAS_SIG:
            rec.bad(keyc, 'uuid_width_alias', UUID_ALIAS_SIG, f'{ad.proto} {cname} {at}: {msg}', case)
        else:
            check2, sig2 = ad.signature(cls, check, dict(sig), at)
            rec.bad(keyc, check2, sig2, f'{ad.proto} {cname} {at}: {msg}', case)
    if len(st.samples) < 3:
        st.samples.append({'class': cname, 'slots': [s.name for s in slots], 'candidates_per_slot': [len(s.cands) for s in slots], 'k': k})


def roundtrip_one(ad: Adapter, key, cls, values: dict, names: list[str], ref_body: bytes | None):
    """Returns None if every oracle holds, else (check, signature, message)."""
    # D1: construct -> bytes -> parse == equal value
    try:
        obj = ad.make(key, cls, dict(values))
        wire = ad.encode(obj)
    except Exception as e:
        return ('construct', {'how': f'exception:{exc_name(e)}', 'stage': 'serialise'}, f'constructing/serialising raised {exc_name(e)}: {e}')
    if ref_body is not None:
        ref = ad.header_ref(key, cls, values, ref_body) + ref_body
    else:
        ref = None
    try:
        parsed = ad.decode(key, cls, wire)
    except Exception as e:
        return ('construct_parse', {'how': f'exception:{exc_name(e)}', 'stage': 'parse_own_bytes'}, f'parsing bumble\'s own bytes {short(wire)} raised {exc_name(e)}: {e}')
    r = compare_obj(ad, cls, values, names, parsed)
    if r:
        if reason_kind(r) == 'uuid_width':
            return ('uuid_width_alias', UUID_ALIAS_SIG, f'construct->bytes->parse: {r}')
        return ('construct_parse', {'how': reason_kind(r), 'field': reason_field(r)}, f'construct->bytes->parse: {r} (wire {short(wire)})')
    if ref is not None and wire != ref:
        # bumble's bytes differ from the independent encoding of the declared spec
        return ('construct_bytes', {'how': 'differs_from_reference_encoding'}, f'serialised {short(wire)} but the declared field specs encode to {short(ref)} ({bytes_diff(ref, wire)})')
    # D2: (reference) bytes -> parse -> equal value -> rebuild from fields -> same bytes
    src = ref if ref is not None else wire
    try:
        p2 = ad.decode(key, cls, src)
    except Exception as e:
        return ('parse', {'how': f'exception:{exc_name(e)}', 'stage': 'parse_reference'}, f'parsing reference bytes {short(src)} raised {exc_name(e)}: {e}')
    r = compare_obj(ad, cls, values, names, p2)
    if r:
        if reason_kind(r) == 'uuid_width':
            return ('uuid_width_alias', UUID_ALIAS_SIG, f'bytes->parse: {r}')
        return ('parse', {'how': reason_kind(r), 'field': reason_field(r)}, f'bytes->parse: {r} (bytes {short(src)})')
    try:
        again = ad.encode(ad.rebuild(key, cls, p2, names))
    except Exception as e:
        return ('parse_rebuild', {'how': f'exception:{exc_name(e)}', 'stage': 'rebuild'}, f'rebuilding from parsed fields raised {exc_name(e)}: {e}')
    if again != src:
        return ('parse_rebuild', {'how': 'bytes_differ'}, f'parse->rebuild->bytes {short(again)} != original {short(src)} ({bytes_diff(src, again)})')
    # the parsed object itself (with whatever caches it carries) must also re-serialise identically
    try:
        direct = ad.encode(p2)
    except Exception as e:
        return ('parse_reserialise', {'how': f'exception:{exc_name(e)}', 'stage': 'bytes(parsed)'}, f'bytes(parsed) raised {exc_name(e)}: {e}')
    if direct != src:
        return ('parse_reserialise', {'how': 'bytes_differ'}, f'bytes(parsed) {short(direct)} != original {short(src)} ({bytes_diff(src, direct)})')
    return None


def compare_obj(ad: Adapter, cls, values: dict, names: list[str], parsed) -> str | None:
    if not ad.parsed_class_ok(cls, parsed):
        return f'class: class {cls.__name__} != {type(parsed).__name__}'
    for n in names:
        if not hasattr(parsed, n):
            return f'{n}: missing on parsed object'
        r = same(values[n], getattr(parsed, n), n)
        if r:
            return r
    return None


def run_adapter(ad: Adapter, rec: Rec, k: int, cap: int | None = None):
    classes = ad.classes()
    rec.st.count('classes_registered', len(classes))
    for key, cls in rec.seq(classes):
        run_class(ad, rec, key, cls, k, cap)


def explain(cases: list[dict], failing: list[bool]) -> dict | None:
    """For an exhaustively enumerated product space: find a single (field, value)
    that characterises the failing set exactly, else None."""
    if not any(failing):
        return None
    fields = list(cases[0].keys())
    for f in fields:
        vals = {c[f] for c in cases}
        for v in sorted(vals, key=repr):
            if all((c[f] == v) == bad for c, bad in zip(cases, failing)):
                return {f: v}
    # two-field conjunctions
    for f, g in itertools.combinations(fields, 2):
        for v in sorted({c[f] for c in cases}, key=repr):
            for w in sorted({c[g] for c in cases}, key=repr):
                if all(((c[f] == v) and (c[g] == w)) == bad for c, bad in zip(cases, failing)):
                    return {f: v, g: w}
    return None


def explain_pred(cases: list[dict], failing: list[bool], preds: dict[str, Callable[[dict], bool]]) -> str | None:
    """Find a named predicate that characterises the failing set exactly."""
    for name, p in preds.items():
        if all(bool(p(c)) == bad for c, bad in zip(cases, failing)):
            return name
    return None


# ---------------------------------------------------------------------------
# UUID / address value families used as field values by several protocols
# ---------------------------------------------------------------------------
BASE_LE = bytes.fromhex('00001000800000805F9B34FB')[::-1]  # Bluetooth base UUID, little-endian tail
REG16 = 0x0100  # L2CAP protocol id: registered as a 16-bit UUID when bumble.core is imported
CUSTOM128_LE = bytes.fromhex('c18c18c1a55a4bd08f0e0123456789ab')[::-1]
CUSTOM32 = 0xC18C18C1  # > 0xFFFF: has no 16-bit twin; its 128-bit base form is never used by this check


def mk_uuid(le: bytes):
    """A UUID value of exactly this width, built through the public constructor, which
    does not touch the process-wide registry."""
    from bumble.core import UUID

    return UUID(le[::-1].hex())


def uuid_candidates(widths=(2, 4, 16), with_alias=True):
    """[(label, UUID, little-endian wire bytes)].  'alias' candidates are well-formed
    UUIDs whose value equals a UUID that is registered with another width."""
    out = []
    if 2 in widths:
        le = REG16.to_bytes(2, 'little')
        out.append(('uuid16', mk_uuid(le), le))
    if 16 in widths:
        out.append(('uuid128', mk_uuid(CUSTOM128_LE), CUSTOM128_LE))
    if 4 in widths:
        le = CUSTOM32.to_bytes(4, 'little')
        out.append(('uuid32', mk_uuid(le), le))
    if with_alias:
        if 16 in widths:
            le = BASE_LE + REG16.to_bytes(2, 'little') + b'\x00\x00'
            out.append(('uuid128=registered16', mk_uuid(le), le))
        if 4 in widths:
            le = REG16.to_bytes(4, 'little')
            out.append(('uuid32=registered16', mk_uuid(le), le))
    return out


ADDR_PATTERNS = [
    ('zeros', bytes(6)),
    ('count', bytes([1, 2, 3, 4, 5, 6])),
    ('ones', b'\xff' * 6),
    ('static', bytes([0x10, 0x20, 0x30, 0x40, 0x50, 0xC6])),
    ('rpa', bytes([0x10, 0x20, 0x30, 0x40, 0x50, 0x46])),
    ('nrpa', bytes([0x10, 0x20, 0x30, 0x40, 0x50, 0x06])),
]
