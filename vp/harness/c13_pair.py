"""C13 harness: one pairing run between two real bumble Devices on the virtual
loop, with scripted users, optional wire tamper at the SMP fixed channel, an
LL_ENC_REQ tap that asks the receiving host for its key (the virtual controller
never does), and re-encryption on later connections in same / swapped roles.

Everything in REFERENCE below is typed in from the Core specification
(Vol 3 Part H 2.3.5.1, Tables 2.6-2.8) and does not look at bumble.
"""
from __future__ import annotations

import os
import shutil
import tempfile

from .. import explore
from ..vloop import Hang, StepBudgetExceeded
from .devices import World

# ---------------------------------------------------------------------------
# REFERENCE (independent of bumble)
# ---------------------------------------------------------------------------
# SMP IO capability codes, Vol 3 Part H Table 3.4
IO_NAMES = ['DisplayOnly', 'DisplayYesNo', 'KeyboardOnly', 'NoInputNoOutput', 'KeyboardDisplay']
DO, DYN, KO, NIO, KD = IO_NAMES

JW = ('JW', None)  # Just Works, unauthenticated
NC = ('NC', None)  # Numeric Comparison (LE Secure Connections only), authenticated
PK_I = ('PK', 'I')  # Passkey Entry: initiator displays, responder inputs; authenticated
PK_R = ('PK', 'R')  # Passkey Entry: responder displays, initiator inputs; authenticated
PK_B = ('PK', 'B')  # Passkey Entry: initiator and responder input; authenticated

# Table 2.8 "Mapping of IO capabilities to key generation method", laid out as in the
# specification: one row per RESPONDER capability, one column per INITIATOR capability,
# each entry (LE legacy pairing, LE Secure Connections).
_COLS = [DO, DYN, KO, NIO, KD]
_S = lambda m: (m, m)  # noqa: E731  same for legacy and SC
TABLE_2_8 = {
    #        initiator:  DisplayOnly   DisplayYesNo   KeyboardOnly  NoInputNoOutput  KeyboardDisplay
    DO: dict(zip(_COLS, [_S(JW), _S(JW), _S(PK_R), _S(JW), _S(PK_R)])),
    DYN: dict(zip(_COLS, [_S(JW), (JW, NC), _S(PK_R), _S(JW), (PK_R, NC)])),
    KO: dict(zip(_COLS, [_S(PK_I), _S(PK_I), _S(PK_B), _S(JW), _S(PK_I)])),
    NIO: dict(zip(_COLS, [_S(JW), _S(JW), _S(JW), _S(JW), _S(JW)])),
    KD: dict(zip(_COLS, [_S(PK_I), (PK_I, NC), _S(PK_R), _S(JW), (PK_I, NC)])),
}

ENC, ID, SIGN, LINK = 1, 2, 4, 8  # key distribution bits, Vol 3 Part H Figure 3.11
MITM_PROTECTED = ('PK', 'NC', 'OOB')


def ref_oob_flag(side):
    """'OOB data flag' a side ought to send: SC: it holds the peer's OOB data; legacy: it holds the TK."""
    return side.get('oob') in ('sc_peer', 'legacy')


def ref_model(ini, rsp):
    """(sc_used, method, displays) for initiator / responder configurations."""
    sc = bool(ini['sc'] and rsp['sc'])
    oi, orr = ref_oob_flag(ini), ref_oob_flag(rsp)
    if (sc and (oi or orr)) or (not sc and oi and orr):  # Tables 2.6 / 2.7
        return sc, 'OOB', None
    if not ini['mitm'] and not rsp['mitm']:  # 2.3.5.1: IO capabilities ignored
        return sc, 'JW', None
    m = TABLE_2_8[IO_NAMES[rsp['io']]][IO_NAMES[ini['io']]][1 if sc else 0]
    return sc, m[0], m[1]


def ref_negotiated_kd(ini, rsp):
    """Key distribution both agreed on: responder may only clear bits (Vol 3 Part H 3.6.1)."""
    return ini['ikd'] & rsp['ikd'], ini['rkd'] & rsp['rkd']


# ---------------------------------------------------------------------------
# case helpers
# ---------------------------------------------------------------------------
def side(io, sc, mitm, bond=True, ikd=15, rkd=15, oob=None):
    return {'io': io, 'sc': bool(sc), 'mitm': bool(mitm), 'bond': bool(bond), 'ikd': ikd, 'rkd': rkd, 'oob': oob}


def make_case(ini, rsp, init='central', ans=None, tamper=None, addr='random', reenc=True):
    return {'i': ini, 'r': rsp, 'init': init, 'ans': ans or {}, 'tamper': tamper, 'addr': addr, 'reenc': reenc}


BOTH_INPUT_NUMBER = 123456
SMP_CODE_NAMES = {
    1: 'Req', 2: 'Rsp', 3: 'Cfm', 4: 'Rnd', 5: 'Fail', 6: 'EncInfo', 7: 'MasterId', 8: 'IdInfo', 9: 'IdAddr',
    10: 'Sign', 11: 'SecReq', 12: 'PubKey', 13: 'DHKey', 14: 'Keypress',
}
METHOD_NAMES = {0: 'JW', 1: 'NC', 2: 'PK', 3: 'OOB', 4: 'CTKD'}


class UserGate:
    """Every scripted delegate coroutine really suspends here, and the moment the user / UI reacts is an event
    of its own channel ('user', side).
      instant: the reaction is one loop hop away (the schedule explorer can still delay it behind messages);
      slow   : the reaction comes only when nothing else in the whole system is runnable (oldest prompt first)."""

    def __init__(self, loop, side, mode, pending):
        self.loop = loop
        self.side = side
        self.mode = mode
        self.pending = pending  # shared, ordered list of (gate, future) of slow users

    def answer(self, fut):
        if not fut.done():
            fut.set_result(None)

    async def wait(self):
        fut = self.loop.create_future()
        if self.mode == 'slow':
            self.pending.append((self, fut))
        else:
            self.loop.call_soon(self.answer, fut)
        await fut


class Shared:
    def __init__(self, loop, speed=('instant', 'instant')):
        self.displayed = {'i': loop.create_future(), 'r': loop.create_future()}
        self.pending = []
        self.gate = {'i': UserGate(loop, 'i', speed[0], self.pending), 'r': UserGate(loop, 'r', speed[1], self.pending)}
        base = loop.classify

        def classify(handle):
            s = getattr(handle._callback, '__self__', None)
            if isinstance(s, UserGate):
                return ('user', s.side)
            return base(handle)

        loop.classify = classify

    def release_one(self):
        """Nothing else is runnable: the slow user who has been waiting longest reacts now."""
        if not self.pending:
            return False
        g, fut = self.pending.pop(0)
        g.loop.call_soon(g.answer, fut)
        return True


def make_delegate(which, cfg, answers, shared, peer_io, log):
    """Scripted user of one device.  `which` is 'i' (SMP initiator) or 'r'."""
    from bumble.pairing import PairingDelegate

    other = 'r' if which == 'i' else 'i'
    gate = shared.gate[which]

    class Scripted(PairingDelegate):
        async def accept(self):
            a = answers.get('accept', 'yes')
            await gate.wait()
            log.append(('accept', a))
            if a == 'raise':
                raise RuntimeError('scripted delegate failure')
            return a == 'yes'

        async def confirm(self, auto=False):
            a = answers.get('confirm', 'yes')
            await gate.wait()
            log.append(('confirm', a))
            return a == 'yes'

        async def compare_numbers(self, number, digits):
            a = answers.get('compare', 'yes')
            await gate.wait()
            log.append(('compare', number, a))
            return a == 'yes'

        async def get_number(self):
            a = answers.get('number', 'right')
            log.append(('input', a))
            if a in ('none', 'zero', 'max'):
                # a user who does not look at the peer's display: declines, or types 000000 / 999999 at once
                await gate.wait()
                return {'none': None, 'zero': 0, 'max': 999999}[a]
            # the user reads the number off the peer's display; when both devices only have a
            # keyboard the two users have agreed on a number beforehand
            if IO_NAMES[cfg['io']] == KO and IO_NAMES[peer_io] == KO:
                n = BOTH_INPUT_NUMBER
            else:
                n = await shared.displayed[other]
            await gate.wait()
            if a.startswith('wrong'):
                n ^= 1 << int(a[5:])
            return n

        async def get_string(self, max_length):
            await gate.wait()
            log.append(('string',))
            return None

        async def display_number(self, number, digits):
            await gate.wait()
            log.append(('display', number))
            if not shared.displayed[which].done():
                shared.displayed[which].set_result(number)

        async def generate_passkey(self):
            await gate.wait()  # producing / rendering the passkey takes the UI a moment
            n = await super().generate_passkey()
            log.append(('generate', n))
            return n

        async def key_distribution_response(self, peer_initiator_key_distribution, peer_responder_key_distribution):
            await gate.wait()
            return await super().key_distribution_response(peer_initiator_key_distribution, peer_responder_key_distribution)

    return Scripted(
        PairingDelegate.IoCapability(cfg['io']),
        PairingDelegate.KeyDistribution(cfg['ikd']),
        PairingDelegate.KeyDistribution(cfg['rkd']),
    )


def drive_sync(coro):
    """Run a coroutine that never really suspends (key-store look-ups)."""
    try:
        coro.send(None)
    except StopIteration as e:
        return e.value
    coro.close()
    raise RuntimeError('long_term_key_provider suspended; the ENC_REQ tap cannot evaluate it synchronously')


def key_to_json(k):
    if k is None:
        return None
    return {
        'value': bytes(k.value).hex(),
        'auth': bool(k.authenticated),
        'ediv': k.ediv,
        'rand': bytes(k.rand).hex() if k.rand is not None else None,
    }


def keys_to_json(keys):
    if keys is None:
        return None
    out = {}
    for n in ('ltk', 'ltk_central', 'ltk_peripheral', 'irk', 'csrk', 'link_key'):
        k = getattr(keys, n)
        if k is not None:
            out[n] = key_to_json(k)
    return out


def connect(w, central, peripheral, addr):
    """LE connection central -> peripheral using random (static) or public addresses."""
    from bumble.hci import OwnAddressType

    c, p = w.devices[central], w.devices[peripheral]
    got = []
    p.once('connection', got.append)
    oat = OwnAddressType.PUBLIC if addr == 'public' else OwnAddressType.RANDOM

    async def go():
        await p.start_advertising(own_address_type=oat, advertising_interval_min=500.0, advertising_interval_max=500.0)
        target = p.public_address if addr == 'public' else p.random_address
        return await c.connect(target, own_address_type=oat)

    cc = w.run(go(), horizon=w.loop.time() + 30.0)
    w.loop.run_until(lambda: bool(got), horizon=w.loop.time() + 30.0)
    w.settle()
    if not got:
        raise RuntimeError('peripheral never saw the connection')
    return cc, got[0]


def store_dump(w, idx):
    items = w.run(w.devices[idx].keystore.get_all())
    return {name: keys_to_json(k) for name, k in items}


def execute(case, prefix=None, fp=None, explore_sched=False, seed=0):
    """Run one case on fresh real objects.  Returns a dict of raw observations (JSON-able)."""
    out = {'harness_error': None}
    tmpdir = None
    with World(2, seed=seed) as w:
        if case.get('store') == 'json':
            # one JSON file per device (each device is its own process in real life)
            from bumble.keys import JsonKeyStore

            tmpdir = tempfile.mkdtemp(prefix='c13_')
            for n, d in enumerate(w.devices):
                d.keystore = JsonKeyStore(f'dev{n}', os.path.join(tmpdir, f'keys{n}.json'))
        try:
            return _execute(w, case, prefix, fp, explore_sched, out)
        finally:
            if tmpdir:
                shutil.rmtree(tmpdir, ignore_errors=True)


def _execute(w, case, prefix, fp, explore_sched, out):
    from bumble import smp
    from bumble.pairing import PairingConfig

    ini, rsp = case['i'], case['r']
    ans = case.get('ans') or {}
    tamper = case.get('tamper')
    addr = case.get('addr', 'random')
    loop = w.loop
    w.power_on()
    dev_i, dev_r = w.devices[0], w.devices[1]  # device 0 = central = SMP initiator
    dev_i.irk = bytes([0xA0 + n for n in range(16)])
    dev_r.irk = bytes([0xB0 + n for n in range(16)])
    shared = Shared(loop, tuple(case.get('speed') or ('instant', 'instant')))
    ulog = {'i': [], 'r': []}
    idtype = {'random': PairingConfig.AddressType.RANDOM, 'public': PairingConfig.AddressType.PUBLIC, 'default': None}[
        addr
    ]

    # OOB material (deterministic: EccKey.generate and crypto.r are pinned)
    oob_cfg = {'i': None, 'r': None}
    if ini.get('oob') or rsp.get('oob'):
        ctx = {'i': smp.OobContext(), 'r': smp.OobContext()}
        legacy = smp.OobLegacyContext()
        for me, peer, c in (('i', 'r', ini), ('r', 'i', rsp)):
            kind = c.get('oob')
            if kind == 'sc_peer':
                oob_cfg[me] = PairingConfig.OobConfig(ctx[me], ctx[peer].share(), None)
            elif kind == 'sc_nopeer':
                oob_cfg[me] = PairingConfig.OobConfig(ctx[me], None, None)
            elif kind == 'legacy':
                oob_cfg[me] = PairingConfig.OobConfig(None, None, legacy)

    cfgs = {}
    for me, c, peer in (('i', ini, rsp), ('r', rsp, ini)):
        d = make_delegate(me, c, ans.get(me, {}), shared, peer['io'], ulog[me])
        cfgs[me] = PairingConfig(
            sc=c['sc'], mitm=c['mitm'], bonding=c['bond'], delegate=d, identity_address_type=idtype, oob=oob_cfg[me]
        )
    dev_i.pairing_config_factory = lambda connection: cfgs['i']
    dev_r.pairing_config_factory = lambda connection: cfgs['r']

    conn_addr = 'public' if addr == 'public' else 'random'
    c_conn, p_conn = connect(w, 0, 1, conn_addr)

    # --- taps ------------------------------------------------------------
    wire = []  # (receiver 'i'/'r', code)
    applied = []

    def tap_smp(dev, me):
        mgr = dev.l2cap_channel_manager
        orig = mgr.fixed_channels[smp.SMP_CID]
        seen = {}

        def handler(handle, pdu):
            code = pdu[0] if pdu else -1
            n = seen.get(code, 0)
            seen[code] = n + 1
            wire.append((me, code))
            if tamper and tamper['to'] == me and tamper['code'] == code and tamper['nth'] == n:
                b = bytearray(pdu)
                b[tamper['byte']] ^= 0x01
                pdu = bytes(b)
                applied.append(len(wire) - 1)
            return orig(handle, pdu)

        mgr.register_fixed_channel(smp.SMP_CID, handler)

    tap_smp(dev_i, 'i')
    tap_smp(dev_r, 'r')

    enc = []  # every LL_ENC_REQ: key of the sender and key the receiving host would answer with

    def tap_enc(idx):
        ctrl = w.controllers[idx]
        orig = ctrl.on_ll_control_pdu

        def on_ll(sender_address, packet):
            if type(packet).__name__ == 'EncReq':
                conn = ctrl.le_connections.get(sender_address)
                answer = 'no-connection'
                if conn is not None:
                    prov = w.hosts[idx].long_term_key_provider
                    try:
                        k = drive_sync(prov(conn.handle, packet.rand, packet.ediv)) if prov else None
                        answer = bytes(k).hex() if k else None  # the host sends a negative reply for None / b''
                    except Exception as e:  # noqa
                        answer = f'raised {type(e).__name__}: {e}'
                enc.append(
                    {'to': idx, 'ltk': bytes(packet.ltk).hex(), 'rand': bytes(packet.rand).hex(), 'ediv': packet.ediv, 'answer': answer}
                )
            return orig(sender_address, packet)

        ctrl.on_ll_control_pdu = on_ll

    tap_enc(0)
    tap_enc(1)

    events = {'i': [], 'r': []}
    for me, conn in (('i', c_conn), ('r', p_conn)):
        conn.on('pairing', lambda keys, me=me: events[me].append(('paired', keys_to_json(keys))))
        conn.on('pairing_failure', lambda reason, me=me: events[me].append(('failed', int(reason))))

    # --- pairing -----------------------------------------------------------
    sched = None
    if explore_sched:
        sched = explore.Sched(prefix, hold=True, expect_fp=fp)
        loop.scheduler = sched
    tasks = []
    if case.get('init', 'central') == 'central':
        tasks.append(loop.create_task(c_conn.pair()))
    else:
        secreq = []

        def on_security_request(auth_req):
            secreq.append(int(auth_req))
            tasks.append(loop.create_task(c_conn.pair()))

        c_conn.on('security_request', on_security_request)
        p_conn.request_pairing()
        out['secreq'] = secreq
    if sched:
        sched.active = True

    def concluded():
        return bool(tasks) and tasks[0].done() and bool(events['i']) and bool(events['r'])

    hang = False
    horizon = loop.time() + 120.0

    def pump(pred, timers=True):
        """Step until pred(); when nothing at all is runnable a slow user reacts; then (optionally) timers."""
        n = 0
        while not pred():
            if loop.step(horizon, False) or shared.release_one() or (timers and loop.step(horizon, True)):
                n += 1
                if n > 400000:
                    raise StepBudgetExceeded('400000 steps')
                continue
            return False
        return True

    try:
        if not pump(concluded):
            hang = True
        # late reactions of users who were still being asked must not change anything either
        pump(lambda: False, timers=False)
    except StepBudgetExceeded as e:
        out['harness_error'] = f'step budget: {e}'
    if sched:
        sched.active = False
        loop.scheduler = None
        out['points'] = sched.points
        out['fp'] = sched.fp
    out['loop_exceptions'] = [(m, e[:200]) for m, e in loop.collect_exceptions()]

    res = None
    if tasks and tasks[0].done() and not tasks[0].cancelled():
        ex = tasks[0].exception()
        res = 'ok' if ex is None else f'{type(ex).__name__}:{getattr(ex, "error_code", "")}'
    out['pair_result'] = res
    out['hang'] = hang
    out['events'] = events
    out['user'] = ulog
    out['wire'] = wire
    out['tamper_applied'] = bool(applied)
    out['enc_pairing'] = list(enc)
    out['encrypted'] = {'i': bool(c_conn.is_encrypted), 'r': bool(p_conn.is_encrypted)}
    out['conn_authenticated'] = {'i': bool(c_conn.authenticated), 'r': bool(p_conn.authenticated)}
    sess = {}
    for me, dev, conn in (('i', dev_i, c_conn), ('r', dev_r, p_conn)):
        s = dev.smp_manager.sessions.get(conn.handle)
        if s is not None:
            sess[me] = {
                'method': METHOD_NAMES.get(int(s.pairing_method), str(s.pairing_method)),
                'display': bool(s.passkey_display),
                'sc': bool(s.sc),
                'bonding': bool(s.bonding),
                'ikd': int(s.initiator_key_distribution),
                'rkd': int(s.responder_key_distribution),
                'completed': bool(s.completed),
            }
    out['sessions'] = sess
    out['stores'] = {'i': store_dump(w, 0), 'r': store_dump(w, 1)}
    out['irk'] = {'i': dev_i.irk.hex(), 'r': dev_r.irk.hex()}
    out['identity'] = {
        'i': str(dev_i.static_address if addr == 'random' else dev_i.public_address),
        'r': str(dev_r.static_address if addr == 'random' else dev_r.public_address),
    }

    # --- later connections ---------------------------------------------------
    out['reenc'] = {}
    if case.get('reenc') and not hang and out['harness_error'] is None:
        for t in tasks:
            if not t.done():
                t.cancel()
        reconnect_addr = 'public' if addr in ('public', 'default') else 'random'
        try:
            w.run(c_conn.disconnect(), horizon=loop.time() + 30.0)
            w.settle()
            for label, central, peripheral in (('same', 0, 1), ('swapped', 1, 0)):
                del enc[:]
                cc, pc = connect(w, central, peripheral, reconnect_addr)
                r = {'central_error': None}
                try:
                    w.run(cc.encrypt(), horizon=loop.time() + 30.0)
                except Hang:
                    r['central_error'] = 'hang'
                except Exception as e:  # noqa
                    r['central_error'] = f'{type(e).__name__}: {e}'
                w.settle()
                r['enc'] = list(enc)
                out['reenc'][label] = r
                w.run(cc.disconnect(), horizon=loop.time() + 30.0)
                w.settle()
            if case.get('repair') and not tamper:
                # the same two devices pair a second time on a new connection (same roles, same answers)
                del enc[:]
                shared.displayed = {'i': loop.create_future(), 'r': loop.create_future()}  # the displays show nothing yet
                cc, pc = connect(w, 0, 1, reconnect_addr)
                ev2 = {'i': [], 'r': []}
                for me, conn in (('i', cc), ('r', pc)):
                    conn.on('pairing', lambda keys, me=me: ev2[me].append(('paired', keys_to_json(keys))))
                    conn.on('pairing_failure', lambda reason, me=me: ev2[me].append(('failed', int(reason))))
                t2 = loop.create_task(cc.pair())
                horizon = loop.time() + 120.0
                hang2 = not pump(lambda: t2.done() and bool(ev2['i']) and bool(ev2['r']))
                pump(lambda: False, timers=False)
                res2 = None
                if t2.done() and not t2.cancelled():
                    ex = t2.exception()
                    res2 = 'ok' if ex is None else f'{type(ex).__name__}:{getattr(ex, "error_code", "")}'
                elif not t2.done():
                    t2.cancel()
                out['repair'] = {
                    'pair_result': res2,
                    'hang': hang2,
                    'events': {k: [(e[0], e[1] if e[0] == 'failed' else None) for e in v] for k, v in ev2.items()},
                    'handle_reused': cc.handle == c_conn.handle,
                    'enc': list(enc),
                    'stores': {'i': store_dump(w, 0), 'r': store_dump(w, 1)},
                    'keys': {k: [e[1] for e in v if e[0] == 'paired'] for k, v in ev2.items()},
                }
        except (Hang, RuntimeError) as e:
            out['reenc']['error'] = f'{type(e).__name__}: {e}'
        loop.collect_exceptions()
    return out
