"""N real Device/Host/Controller stacks on one LocalLink under a VLoop."""
from __future__ import annotations

import asyncio

from .. import determinism
from ..vloop import VLoop, make_bumble_classifier


class World:
    """with World(n) as w: ... ; w.loop is the VLoop (already 'running')."""

    def __init__(self, n=2, seed=0, controller_attrs=None, device_kwargs=None, classic=False, le=True, direct=False):
        determinism.install()
        determinism.reset(seed)
        self.n = n
        self.controller_attrs = controller_attrs or {}
        self.device_kwargs = device_kwargs or {}
        self.classic = classic
        self.le = le
        # direct=True: the host hands its HCI packets to the controller synchronously (Host(controller, controller), as
        # many of bumble's examples wire it) instead of through an AsyncPipeSink
        self.direct = direct

    def __enter__(self):
        from bumble.controller import Controller
        from bumble.device import Device
        from bumble.hci import Address
        from bumble.host import Host
        from bumble.link import LocalLink
        from bumble.transport.common import AsyncPipeSink

        self.loop = VLoop()
        self.loop.__enter__()
        self.link = LocalLink()
        self.addresses = [":".join([f"F{i}"] * 6) for i in range(self.n)]
        self.controllers = []
        for i in range(self.n):
            c = Controller(f'C{i}', link=self.link, public_address=self.addresses[i])
            for k, v in self.controller_attrs.get(i, {}).items():
                setattr(c, k, v)
            self.controllers.append(c)
        self.devices = []
        for i in range(self.n):
            d = Device(
                address=Address(self.addresses[i]),
                host=Host(self.controllers[i], self.controllers[i] if self.direct else AsyncPipeSink(self.controllers[i])),
                **self.device_kwargs.get(i, {}),
            )
            d.classic_enabled = self.classic
            d.le_enabled = self.le
            self.devices.append(d)
        self.hosts = [d.host for d in self.devices]
        self.loop.classify = make_bumble_classifier(self.controllers, self.hosts)
        return self

    def __exit__(self, *a):
        try:
            self.loop.shutdown()
        finally:
            self.loop.__exit__()
        return False

    # -- helpers -----------------------------------------------------------
    def run(self, coro, horizon=None, max_steps=200000):
        return self.loop.run(coro, horizon=horizon, max_steps=max_steps)

    def settle(self, allow_timers=False, horizon=None):
        return self.loop.run_quiescent(horizon=horizon, allow_timers=allow_timers)

    def power_on(self):
        async def go():
            for d in self.devices:
                await d.power_on()

        self.run(go())

    def connect_le(self, central=0, peripheral=1, own_address_type=None):
        """Returns (central_connection, peripheral_connection)."""
        from bumble.hci import OwnAddressType

        c, p = self.devices[central], self.devices[peripheral]
        got = []
        p.once('connection', got.append)

        async def go():
            await p.start_advertising(advertising_interval_min=500.0, advertising_interval_max=500.0)
            kw = {}
            if own_address_type is not None:
                kw['own_address_type'] = own_address_type
            conn = await c.connect(p.random_address, **kw)
            return conn

        cc = self.run(go())
        self.loop.run_until(lambda: bool(got))
        self.settle()
        return cc, got[0]

    def connect_classic(self, initiator=0, acceptor=1):
        from bumble.core import PhysicalTransport

        c, p = self.devices[initiator], self.devices[acceptor]
        got = []
        p.once('connection', got.append)

        async def go():
            return await c.connect(p.public_address, transport=PhysicalTransport.BR_EDR)

        cc = self.run(go())
        self.loop.run_until(lambda: bool(got))
        self.settle()
        return cc, got[0]
