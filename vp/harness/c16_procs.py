"""C16 harness: the awaited procedures whose teardown is checked, each as

  services(w)            register what the *other* device serves (once per World, survives reconnects)
  prepare(env)  (async)  fault-free preamble on a fresh connection (discovery, opening the channel that
                         the procedure then closes, ...)
  run(env, t)   (async)  the awaited public API calls under test; every call goes through
                         `await t('api name', awaitable)` so that a call that never returns is named.

Only bumble's public API is used to drive the stacks.  `Env.local` is the device whose application awaits
the calls (the *waiting side*), `Env.peer` the other one.
"""
from __future__ import annotations

import asyncio

LE_PSM = 0x0080
CLASSIC_PSM = 0x1001
RFCOMM_CHANNEL = 3
SHORT_VALUE = bytes(range(0x10, 0x18))
LONG_VALUE = bytes((7 * i + 1) & 0xFF for i in range(70))  # > 3 x (ATT_MTU 23 - 1): needs Read Blob requests
SVC_UUID = '3A657F47-D34F-46B3-B1EC-698E29B6B829'
CH_SHORT_UUID = '3A657F47-D34F-46B3-B1EC-698E29B6B82A'
CH_LONG_UUID = '3A657F47-D34F-46B3-B1EC-698E29B6B82B'
CH_IND_UUID = '3A657F47-D34F-46B3-B1EC-698E29B6B82C'


class Env:
    """One connection between the two devices `pair`; conns = (Connection at pair[0] = central / initiator end,
    Connection at pair[1] = peripheral / acceptor end)."""

    def __init__(self, w, waiting, conns, pair=(0, 1)):
        self.w = w
        self.waiting = waiting
        self.local_index = pair[waiting]
        self.peer_index = pair[1 - waiting]
        self.local = w.devices[self.local_index]
        self.peer = w.devices[self.peer_index]
        self.conns = conns
        self.conn = conns[waiting]  # Connection object of the waiting side
        self.peer_conn = conns[1 - waiting]
        self.x = {}  # procedure scratch (per connection)


class Proc:
    name = ''
    transport = 'le'
    waiting = 0  # which end awaits: 0 = central / initiator end, 1 = peripheral / acceptor end
    n_devices = 2
    pair = (0, 1)  # (central / initiator device, peripheral / acceptor device) of the connection under test
    controller_attrs = {}
    reconnect_fault = False  # also swept with the 'disconnect_and_reconnect_same_handle' fault

    def services(self, w):
        pass

    async def prepare(self, env):
        pass

    async def run(self, env, t):
        raise NotImplementedError


# ---------------------------------------------------------------------------
# an idle connection that has carried data both ways: whatever goes wrong here is wrong for every procedure
# ---------------------------------------------------------------------------
IDLE_CID = 0x3E


class IdleLe(Proc):
    name = 'idle_le'

    def services(self, w):
        self.rx = []
        for d in w.devices:
            d.l2cap_channel_manager.register_fixed_channel(IDLE_CID, lambda handle, pdu: self.rx.append(bytes(pdu)))

    async def prepare(self, env):
        env.local.send_l2cap_pdu(env.conn.handle, IDLE_CID, b'ping')
        env.peer.send_l2cap_pdu(env.peer_conn.handle, IDLE_CID, b'pong')

    async def run(self, env, t):
        assert sorted(self.rx)[-2:] == [b'ping', b'pong'], self.rx


class IdleClassic(IdleLe):
    name = 'idle_classic'
    transport = 'classic'


class LastWordsLe(IdleLe):
    """Applications whose 'disconnection' listener still sends something on the connection that is going away (a goodbye,
    a last notification): whatever becomes of that PDU, it may not stay behind in the host's queue."""

    name = 'last_words_le'

    async def prepare(self, env):
        await super().prepare(env)
        for dev, conn in ((env.local, env.conn), (env.peer, env.peer_conn)):
            def bye(*a, dev=dev, conn=conn):
                try:
                    dev.send_l2cap_pdu(conn.handle, IDLE_CID, b'bye')
                except Exception:  # noqa: being refused is fine
                    pass

            conn.on('disconnection', bye)


class LastWordsClassic(LastWordsLe):
    name = 'last_words_classic'
    transport = 'classic'


# ---------------------------------------------------------------------------
# GATT
# ---------------------------------------------------------------------------
class _Gatt(Proc):
    def services(self, w):
        from bumble import gatt

        RW = gatt.Characteristic.READABLE | gatt.Characteristic.WRITEABLE
        P = gatt.Characteristic.Properties
        self.ch_short = gatt.Characteristic(CH_SHORT_UUID, P.READ | P.WRITE, RW, SHORT_VALUE)
        self.ch_long = gatt.Characteristic(CH_LONG_UUID, P.READ, RW, LONG_VALUE)
        self.ch_ind = gatt.Characteristic(CH_IND_UUID, P.READ | P.NOTIFY | P.INDICATE, RW, bytes(4))
        w.devices[1].add_service(gatt.Service(SVC_UUID, [self.ch_short, self.ch_long, self.ch_ind]))

    async def discover(self, env):
        from bumble.device import Peer

        peer = Peer(env.conns[0])  # the GATT client is always the central
        await peer.discover_services()
        for s in peer.services:
            await s.discover_characteristics()
        env.x['peer'] = peer
        from bumble.core import UUID

        for key, u in (('short', CH_SHORT_UUID), ('long', CH_LONG_UUID), ('ind', CH_IND_UUID)):
            env.x[key] = peer.get_characteristics_by_uuid(UUID(u))[0]

    async def prepare(self, env):
        await self.discover(env)


class GattRead(_Gatt):
    name = 'gatt_read'

    async def run(self, env, t):
        v = await t('CharacteristicProxy.read_value', env.x['short'].read_value())
        assert bytes(v) == SHORT_VALUE, v


class GattLongRead(_Gatt):
    name = 'gatt_long_read'

    async def run(self, env, t):
        v = await t('CharacteristicProxy.read_value(long)', env.x['long'].read_value())
        assert bytes(v) == LONG_VALUE, v


class GattWrite(_Gatt):
    name = 'gatt_write'

    async def run(self, env, t):
        await t('CharacteristicProxy.write_value(with_response)', env.x['short'].write_value(SHORT_VALUE, with_response=True))


class GattDiscover(_Gatt):
    name = 'gatt_discover'

    async def prepare(self, env):
        pass

    async def run(self, env, t):
        from bumble.device import Peer

        peer = Peer(env.conn)
        await t('Peer.discover_services', peer.discover_services())
        for s in list(peer.services):
            await t('ServiceProxy.discover_characteristics', s.discover_characteristics())
        for s in list(peer.services):
            for c in list(s.characteristics):
                await t('CharacteristicProxy.discover_descriptors', c.discover_descriptors())
        assert any(str(s.uuid) == SVC_UUID for s in peer.services)


class GattSubscribe(_Gatt):
    name = 'gatt_subscribe'

    async def run(self, env, t):
        await t('CharacteristicProxy.subscribe', env.x['ind'].subscribe(lambda v: None))


class GattIndicate(_Gatt):
    """The server application (peripheral) awaits indicate_subscribers."""

    name = 'gatt_indicate'
    waiting = 1

    async def prepare(self, env):
        await self.discover(env)
        env.x['got'] = []
        await env.x['ind'].subscribe(env.x['got'].append, prefer_notify=False)

    async def run(self, env, t):
        await t('Device.indicate_subscribers', env.local.indicate_subscribers(self.ch_ind, b'\x01\x02\x03\x04'))
        assert env.x['got'] == [b'\x01\x02\x03\x04'], env.x['got']


class _GattServerIsCentral(_Gatt):
    """The GATT server is the LE central (device 0), the client the peripheral: only a central can be given a new
    connection with the handle of the one it has not yet seen die (its connect() does not need its late host)."""

    waiting = 1
    reconnect_fault = True

    async def discover(self, env):
        from bumble.core import UUID
        from bumble.device import Peer

        peer = Peer(env.conns[1])  # the GATT client is the peripheral
        await peer.discover_services()
        for s in peer.services:
            await s.discover_characteristics()
        env.x['peer'] = peer
        env.x['ind'] = peer.get_characteristics_by_uuid(UUID(CH_IND_UUID))[0]
        await env.x['ind'].discover_descriptors()


def _central_service(self, w):
    from bumble import gatt

    RW = gatt.Characteristic.READABLE | gatt.Characteristic.WRITEABLE
    P = gatt.Characteristic.Properties
    self.ch_ind = gatt.Characteristic(CH_IND_UUID, P.READ | P.NOTIFY | P.INDICATE, RW, bytes(4))
    w.devices[0].add_service(gatt.Service(SVC_UUID, [self.ch_ind]))


_GattServerIsCentral.services = _central_service


class GattSubscribeServerCentral(_GattServerIsCentral):
    name = 'gatt_subscribe_server_is_central'

    async def run(self, env, t):
        await t('CharacteristicProxy.subscribe', env.x['ind'].subscribe(lambda v: None))


class GattCccdWriteCommandServerCentral(_GattServerIsCentral):
    name = 'gatt_cccd_write_command_server_is_central'

    async def run(self, env, t):
        from bumble import gatt

        cccd = env.x['ind'].get_descriptor(gatt.GATT_CLIENT_CHARACTERISTIC_CONFIGURATION_DESCRIPTOR)
        await t('DescriptorProxy.write_value(CCCD, no response)', cccd.write_value(b'\x01\x00'))
        await t('DescriptorProxy.write_value(CCCD, with response)', cccd.write_value(b'\x03\x00', with_response=True))


# ---------------------------------------------------------------------------
# outbound data that never left the host
# ---------------------------------------------------------------------------
class CreditGate:
    """The controller is slow to return credits: Number Of Completed Packets events reach the host's handler
    late (in order).  Installed as an instance attribute of the real Host."""

    def __init__(self, host):
        self.real = host.on_hci_number_of_completed_packets_event
        self.holding = False
        self.held = []
        host.on_hci_number_of_completed_packets_event = self.on_event

    def on_event(self, event):
        if self.holding:
            self.held.append(event)
        else:
            self.real(event)

    def hold(self):
        self.holding = True

    def release(self):
        self.holding = False
        held, self.held = self.held, []
        for e in held:
            self.real(e)


class _Queued(Proc):
    """Central 0 keeps its controller's few ACL buffers busy with data for peripheral 1 (credits delayed); what it
    then writes to peripheral 2 can only wait in the host's queue.  The connection to peripheral 2 is the one torn."""

    n_devices = 3
    pair = (0, 2)
    buffers = 2
    N_QUEUED = 3

    @property
    def controller_attrs(self):
        return {0: {'total_num_le_acl_data_packets': self.buffers, 'total_num_acl_data_packets': self.buffers}}

    def services(self, w):
        self.rx = {i: [] for i in range(3)}
        for i, d in enumerate(w.devices):
            d.l2cap_channel_manager.register_fixed_channel(IDLE_CID, lambda handle, pdu, i=i: self.rx[i].append(bytes(pdu)))
        self.c1 = w.connect_le(0, 1)
        self.gate = CreditGate(w.hosts[0])
        self.round = 0

    async def prepare(self, env):
        self.gate.release()

    async def run(self, env, t):
        w = env.w
        self.round += 1
        n1, n2 = len(self.rx[1]), len(self.rx[2])
        self.gate.hold()
        for k in range(self.buffers + 2):
            w.devices[0].send_l2cap_pdu(self.c1[0].handle, IDLE_CID, bytes([self.round, k]) * 4)
        for k in range(self.N_QUEUED):
            w.devices[0].send_l2cap_pdu(env.conn.handle, IDLE_CID, bytes([0xA0 + self.round, k]) * 4)
        q = w.hosts[0].le_acl_packet_queue
        assert q.pending == self.buffers + 2 + self.N_QUEUED, q.pending
        w.loop.call_later(1.0, self.gate.release)
        v = await t('gatt_client.read_value [request behind the queued data]', env.conn.gatt_client.read_value(0x0003))
        await asyncio.sleep(0.5)
        assert len(self.rx[1]) - n1 == self.buffers + 2, (len(self.rx[1]) - n1)
        assert len(self.rx[2]) - n2 == self.N_QUEUED, (len(self.rx[2]) - n2)
        assert q.pending == 0, q.pending


class Queued1(_Queued):
    name = 'queued_outbound_data_1'
    buffers = 1


class Queued2(_Queued):
    name = 'queued_outbound_data_2'
    buffers = 2


class Queued4(_Queued):
    name = 'queued_outbound_data_4'
    buffers = 4


# ---------------------------------------------------------------------------
# pairing
# ---------------------------------------------------------------------------
class _Pair(Proc):
    sc = True
    passkey = False

    def services(self, w):
        from bumble.pairing import PairingConfig, PairingDelegate

        shown = self.shown = {}  # what the displaying user sees; the typing user reads it from there
        loop = w.loop

        class Shows(PairingDelegate):
            def __init__(self):
                super().__init__(PairingDelegate.IoCapability.DISPLAY_OUTPUT_ONLY)

            async def display_number(self, number, digits):
                shown['n'] = number
                if 'f' in shown and not shown['f'].done():
                    shown['f'].set_result(number)

        class Types(PairingDelegate):
            def __init__(self):
                super().__init__(PairingDelegate.IoCapability.KEYBOARD_INPUT_ONLY)

            async def get_number(self):
                if 'n' in shown:
                    return shown.pop('n')
                shown['f'] = loop.create_future()
                try:
                    return await shown['f']
                finally:
                    shown.pop('f', None)
                    shown.pop('n', None)

        def cfg(delegate_cls):
            def factory(connection):
                return PairingConfig(sc=self.sc, mitm=self.passkey, bonding=True, delegate=delegate_cls())

            return factory

        if self.passkey:
            w.devices[0].pairing_config_factory = cfg(Types)
            w.devices[1].pairing_config_factory = cfg(Shows)
        else:
            nio = lambda: PairingDelegate(PairingDelegate.IoCapability.NO_OUTPUT_NO_INPUT)  # noqa: E731
            w.devices[0].pairing_config_factory = cfg(nio)
            w.devices[1].pairing_config_factory = cfg(nio)

    async def prepare(self, env):
        self.shown.clear()  # a new connection: nothing of an earlier, aborted pairing is on the display any more

    async def run(self, env, t):
        await t('Connection.pair', env.conn.pair())
        assert env.conn.is_encrypted


class PairLegacyJW(_Pair):
    name = 'pair_legacy_jw'
    sc = False


class PairScJW(_Pair):
    name = 'pair_sc_jw'


class PairScPasskey(_Pair):
    name = 'pair_sc_passkey'
    passkey = True


# ---------------------------------------------------------------------------
# LE credit-based channels
# ---------------------------------------------------------------------------
class _Coc(Proc):
    max_credits = 4
    mps = 48

    def spec(self):
        from bumble import l2cap

        return l2cap.LeCreditBasedChannelSpec(psm=LE_PSM, max_credits=self.max_credits, mtu=512, mps=self.mps)

    def services(self, w):
        self.accepted = []
        self.received = []

        def on_channel(ch):
            self.accepted.append(ch)
            ch.sink = self.received.append

        w.devices[1].create_l2cap_server(self.spec(), handler=on_channel)

    async def open(self, env):
        env.x['ch'] = await env.conn.create_l2cap_channel(self.spec())


class CocConnect(_Coc):
    name = 'le_coc_connect'

    async def run(self, env, t):
        ch = await t('Connection.create_l2cap_channel(LE CoC)', env.conn.create_l2cap_channel(self.spec()))
        env.x['ch'] = ch


class CocDisconnect(_Coc):
    name = 'le_coc_disconnect'

    async def prepare(self, env):
        await self.open(env)

    async def run(self, env, t):
        await t('LeCreditBasedChannel.disconnect', env.x['ch'].disconnect())


class CocDrain(_Coc):
    """An SDU of many more frames than the peer ever grants at once: drain() has to sit through several
    credit round trips."""

    name = 'le_coc_drain'
    max_credits = 2

    async def prepare(self, env):
        await self.open(env)

    async def run(self, env, t):
        n0 = len(self.received)
        env.x['ch'].write(bytes(range(200)) * 2)  # 402 bytes with the SDU length / 48 = 9 frames, 2 credits
        await t('LeCreditBasedChannel.drain', env.x['ch'].drain())
        await asyncio.sleep(0)
        assert len(self.received) >= n0, 'nothing'


# ---------------------------------------------------------------------------
# HCI / link level
# ---------------------------------------------------------------------------
class HciCommand(Proc):
    name = 'hci_command'

    async def run(self, env, t):
        from bumble import hci

        await t('Host.send_command(Read_BD_ADDR)', env.local.host.send_command(hci.HCI_Read_BD_ADDR_Command(), check_result=True))
        await t('Host.send_command(Read_RSSI)', env.local.host.send_command(hci.HCI_Read_RSSI_Command(handle=env.conn.handle)))


class LeRemoteFeatures(Proc):
    name = 'le_remote_features'

    async def run(self, env, t):
        await t('Connection.get_remote_le_features', env.conn.get_remote_le_features())


class LeL2capUpdateParameters(Proc):
    """The peripheral asks for new connection parameters over L2CAP signalling and awaits the answer."""

    name = 'le_l2cap_update_parameters'
    waiting = 1

    async def run(self, env, t):
        await t('Connection.update_parameters(use_l2cap)', env.conn.update_parameters(30.0, 50.0, 0, 4000.0, use_l2cap=True))


class LeDisconnect(Proc):
    name = 'le_disconnect'

    async def run(self, env, t):
        await t('Connection.disconnect', env.conn.disconnect())


class LeDisconnectPeripheral(LeDisconnect):
    name = 'le_disconnect_by_peripheral'
    waiting = 1


# ---------------------------------------------------------------------------
# classic
# ---------------------------------------------------------------------------
class _ClassicChan(Proc):
    transport = 'classic'

    def spec(self):
        from bumble import l2cap

        return l2cap.ClassicChannelSpec(psm=CLASSIC_PSM)

    def services(self, w):
        self.accepted = []
        w.devices[1].create_l2cap_server(self.spec(), handler=self.accepted.append)


class ClassicConnect(_ClassicChan):
    name = 'classic_l2cap_connect'

    async def run(self, env, t):
        env.x['ch'] = await t('Connection.create_l2cap_channel(classic)', env.conn.create_l2cap_channel(self.spec()))


class ClassicChanDisconnect(_ClassicChan):
    name = 'classic_l2cap_disconnect'

    async def prepare(self, env):
        env.x['ch'] = await env.conn.create_l2cap_channel(self.spec())

    async def run(self, env, t):
        await t('ClassicChannel.disconnect', env.x['ch'].disconnect())


class Rfcomm(Proc):
    name = 'rfcomm_open'
    transport = 'classic'

    def services(self, w):
        from bumble import rfcomm

        self.dlcs = []
        self.server = rfcomm.Server(w.devices[1])
        assert self.server.listen(self.dlcs.append, channel=RFCOMM_CHANNEL) == RFCOMM_CHANNEL

    async def run(self, env, t):
        from bumble import rfcomm

        client = rfcomm.Client(env.conn)
        mux = await t('rfcomm.Client.start', client.start())
        env.x['dlc'] = await t('rfcomm.Multiplexer.open_dlc', mux.open_dlc(RFCOMM_CHANNEL))


class RfcommShutdown(Rfcomm):
    name = 'rfcomm_close'

    async def prepare(self, env):
        from bumble import rfcomm

        env.x['client'] = rfcomm.Client(env.conn)
        mux = await env.x['client'].start()
        env.x['dlc'] = await mux.open_dlc(RFCOMM_CHANNEL)

    async def run(self, env, t):
        await t('rfcomm.DLC.disconnect', env.x['dlc'].disconnect())
        await t('rfcomm.Client.shutdown', env.x['client'].shutdown())


class Sdp(Proc):
    name = 'sdp_search_attributes'
    transport = 'classic'

    def services(self, w):
        from bumble import sdp
        from bumble.core import UUID

        recs = {}
        for hnd, cls16 in ((0x00010001, 0x1101), (0x00010002, 0x110A)):
            recs[hnd] = [
                sdp.ServiceAttribute(sdp.SDP_SERVICE_RECORD_HANDLE_ATTRIBUTE_ID, sdp.DataElement.unsigned_integer_32(hnd)),
                sdp.ServiceAttribute(sdp.SDP_SERVICE_CLASS_ID_LIST_ATTRIBUTE_ID, sdp.DataElement.sequence([sdp.DataElement.uuid(UUID.from_16_bits(cls16))])),
                sdp.ServiceAttribute(
                    sdp.SDP_PROTOCOL_DESCRIPTOR_LIST_ATTRIBUTE_ID,
                    sdp.DataElement.sequence([sdp.DataElement.sequence([sdp.DataElement.uuid(UUID.from_16_bits(0x0100))])]),
                ),
                # long enough for the response to need continuation at the default L2CAP MTU
                sdp.ServiceAttribute(0x0100, sdp.DataElement.text_string(bytes(0x41 + (i % 26) for i in range(500)))),
            ]
        w.devices[1].sdp_server.service_records.update(recs)

    async def run(self, env, t):
        from bumble import sdp
        from bumble.core import UUID

        client = sdp.Client(env.conn)
        await t('sdp.Client.connect', client.connect())
        r = await t('sdp.Client.search_attributes', client.search_attributes([UUID.from_16_bits(0x1101)], [(0, 0xFFFF)]))
        assert len(r) == 1, r
        await t('sdp.Client.disconnect', client.disconnect())


class Avdtp(Proc):
    name = 'avdtp_discover'
    transport = 'classic'

    def services(self, w):
        from bumble import a2dp, avdtp

        I = a2dp.SbcMediaCodecInformation
        caps = avdtp.MediaCodecCapabilities(
            media_type=avdtp.MediaType.AUDIO,
            media_codec_type=a2dp.CodecType.SBC,
            media_codec_information=I(
                sampling_frequency=I.SamplingFrequency.SF_48000 | I.SamplingFrequency.SF_44100,
                channel_mode=I.ChannelMode.MONO | I.ChannelMode.STEREO | I.ChannelMode.JOINT_STEREO,
                block_length=I.BlockLength.BL_4 | I.BlockLength.BL_8 | I.BlockLength.BL_12 | I.BlockLength.BL_16,
                subbands=I.Subbands.S_4 | I.Subbands.S_8,
                allocation_method=I.AllocationMethod.LOUDNESS | I.AllocationMethod.SNR,
                minimum_bitpool_value=2,
                maximum_bitpool_value=53,
            ),
        )
        self.servers = []

        def on_conn(server):
            self.servers.append(server)
            server.add_sink(caps)

        self.listener = avdtp.Listener.for_device(w.devices[1])
        self.listener.on('connection', on_conn)

    async def run(self, env, t):
        from bumble import avdtp

        protocol = await t('avdtp.Protocol.connect', avdtp.Protocol.connect(env.conn))
        eps = await t('avdtp.Protocol.discover_remote_endpoints', protocol.discover_remote_endpoints())
        assert len(list(eps)) == 1


class ClassicRemoteName(Proc):
    name = 'classic_remote_name'
    transport = 'classic'

    async def run(self, env, t):
        await t('Connection.request_remote_name', env.conn.request_remote_name())


class ClassicSwitchRole(Proc):
    name = 'classic_switch_role'
    transport = 'classic'

    async def run(self, env, t):
        from bumble import hci

        await t('Connection.switch_role', env.conn.switch_role(hci.Role.PERIPHERAL))
        assert env.conn.role == hci.Role.PERIPHERAL


class ClassicDisconnect(Proc):
    name = 'classic_disconnect'
    transport = 'classic'

    async def run(self, env, t):
        await t('Connection.disconnect', env.conn.disconnect())


PROC_CLASSES = [
    IdleLe, IdleClassic, LastWordsLe, LastWordsClassic,
    GattRead, GattLongRead, GattWrite, GattDiscover, GattSubscribe, GattIndicate,
    GattSubscribeServerCentral, GattCccdWriteCommandServerCentral, Queued1, Queued2, Queued4,
    PairLegacyJW, PairScJW, PairScPasskey,
    CocConnect, CocDisconnect, CocDrain,
    HciCommand, LeRemoteFeatures, LeL2capUpdateParameters, LeDisconnect, LeDisconnectPeripheral,
    ClassicConnect, ClassicChanDisconnect, Rfcomm, RfcommShutdown, Sdp, Avdtp, ClassicRemoteName, ClassicSwitchRole, ClassicDisconnect,
]
PROCS = {c.name: c for c in PROC_CLASSES}
