"""C08 — independent wire decoder and monitor for classic L2CAP channels.

Nothing in this file imports bumble.  Everything is decoded from the bytes that
cross the host <-> controller seam, following Bluetooth Core Vol 3 Part A:

  basic header      : Length(2, LE) | CID(2, LE) | payload ...
  C-frame (CID 1)   : one or more  Code(1) | Identifier(1) | Length(2) | data
  enhanced control  : 16 bits, little endian
        I-frame  bit0 = 0 | TxSeq bits 1..6 | F bit 7 | ReqSeq bits 8..13 | SAR bits 14..15
        S-frame  bit0 = 1 | bit1 = 0 | S bits 2..3 | P bit 4 | bits 5..6 = 0 | F bit 7
                 | ReqSeq bits 8..13 | bits 14..15 = 0
  SAR               : 00 unsegmented, 01 start (followed by SDU Length(2)), 10 end, 11 continuation
  FCS               : CRC-16, g(D) = D^16 + D^15 + D^2 + 1, register initialised to 0, bits fed LSB first,
                      computed over header + control + payload, transmitted little endian
  configuration     : options Type(1) | Length(1) | value; 0x01 MTU(2); 0x04 retransmission & flow control
                      Mode(1) TxWindow(1) MaxTransmit(1) RetransTimeout(2) MonitorTimeout(2) MPS(2); 0x05 FCS(1)

`ChannelMonitor` follows one connection-oriented channel between device 0 and
device 1 from those frames alone and reports what the property statement
demands of the wire: TxSeq without gaps modulo 64, unacknowledged I-frames never
above the window advertised by the peer, well-formed SAR sequences, FCS that
verifies, plus the SDUs that the I-frames (or B-frames) actually carried.
"""
from __future__ import annotations

SIG_CID = 0x0001

CONNECTION_REQUEST = 0x02
CONNECTION_RESPONSE = 0x03
CONFIGURE_REQUEST = 0x04
CONFIGURE_RESPONSE = 0x05
DISCONNECTION_REQUEST = 0x06
DISCONNECTION_RESPONSE = 0x07
COMMAND_REJECT = 0x01

OPT_MTU = 0x01
OPT_RFC = 0x04
OPT_FCS = 0x05

MODE_BASIC = 0
MODE_ERTM = 3

SAR_UNSEGMENTED = 0
SAR_START = 1
SAR_END = 2
SAR_CONTINUATION = 3
SAR_NAMES = {0: 'UNSEG', 1: 'START', 2: 'END', 3: 'CONT'}


class WireError(Exception):
    pass


# ---------------------------------------------------------------------------
# CRC-16 as a plain shift register (MSB-first register fed with the bits of each
# octet least-significant first, result bit-reversed) — deliberately not the
# reflected table/0xA001 form the code under test uses.
# ---------------------------------------------------------------------------
def crc16(data: bytes) -> int:
    reg = 0
    for octet in data:
        for i in range(8):
            bit = (octet >> i) & 1
            top = (reg >> 15) & 1
            reg = (reg << 1) & 0xFFFF
            if top ^ bit:
                reg ^= 0x8005
    out = 0
    for i in range(16):
        if reg & (1 << i):
            out |= 1 << (15 - i)
    return out


def _selftest():
    # CRC-16/ARC check value, and the two worked examples of Vol 3 Part A 3.3.5
    assert crc16(b'123456789') == 0xBB3D
    assert crc16(bytes.fromhex('0e0040000200000102030405060708 09'.replace(' ', ''))) == 0x6138
    assert crc16(bytes.fromhex('040040000101')) == 0x14D4


_selftest()


def u16(b: bytes, off: int) -> int:
    return b[off] | (b[off + 1] << 8)


# ---------------------------------------------------------------------------
# frames
# ---------------------------------------------------------------------------
def split_basic(raw: bytes):
    """(length_field, cid, payload) of one complete L2CAP frame."""
    if len(raw) < 4:
        raise WireError(f'frame of {len(raw)} octets has no basic header')
    length = u16(raw, 0)
    cid = u16(raw, 2)
    if len(raw) != 4 + length:
        raise WireError(f'Length field {length} but {len(raw) - 4} octets follow the header')
    return length, cid, raw[4:]


def split_commands(payload: bytes):
    """[(code, identifier, data)] of a C-frame payload."""
    out = []
    off = 0
    while off < len(payload):
        if off + 4 > len(payload):
            raise WireError('truncated signalling command header')
        code, ident, ln = payload[off], payload[off + 1], u16(payload, off + 2)
        data = payload[off + 4 : off + 4 + ln]
        if len(data) != ln:
            raise WireError('truncated signalling command')
        out.append((code, ident, data))
        off += 4 + ln
    return out


def parse_options(data: bytes):
    """{'mtu': int, 'rfc': (mode, txwin, maxtx, rto, mto, mps), 'fcs': int, 'other': [...]}"""
    out = {}
    off = 0
    while off < len(data):
        if off + 2 > len(data):
            raise WireError('truncated option header')
        typ, ln = data[off] & 0x7F, data[off + 1]
        val = data[off + 2 : off + 2 + ln]
        if len(val) != ln:
            raise WireError('truncated option')
        if typ == OPT_MTU and ln == 2:
            out['mtu'] = u16(val, 0)
        elif typ == OPT_RFC and ln == 9:
            out['rfc'] = (val[0], val[1], val[2], u16(val, 3), u16(val, 5), u16(val, 7))
        elif typ == OPT_FCS and ln == 1:
            out['fcs'] = val[0]
        else:
            out.setdefault('other', []).append((typ, val.hex()))
        off += 2 + ln
    return out


def parse_psm(data: bytes):
    """PSM is at least two octets; every octet but the last has its LSB set."""
    n = 1
    while n < len(data) and (data[n - 1] & 1):
        n += 1
    n = max(n, 2)
    psm = 0
    for i in range(n):
        psm |= data[i] << (8 * i)
    return psm, n


def decode_command(code: int, data: bytes) -> dict:
    if code == CONNECTION_REQUEST:
        psm, n = parse_psm(data)
        return {'op': 'conn_req', 'psm': psm, 'scid': u16(data, n)}
    if code == CONNECTION_RESPONSE:
        return {'op': 'conn_rsp', 'dcid': u16(data, 0), 'scid': u16(data, 2), 'result': u16(data, 4), 'status': u16(data, 6)}
    if code == CONFIGURE_REQUEST:
        return {'op': 'conf_req', 'dcid': u16(data, 0), 'flags': u16(data, 2), 'options': parse_options(data[4:])}
    if code == CONFIGURE_RESPONSE:
        return {'op': 'conf_rsp', 'scid': u16(data, 0), 'flags': u16(data, 2), 'result': u16(data, 4), 'options': parse_options(data[6:])}
    if code == DISCONNECTION_REQUEST:
        return {'op': 'disc_req', 'dcid': u16(data, 0), 'scid': u16(data, 2)}
    if code == DISCONNECTION_RESPONSE:
        return {'op': 'disc_rsp', 'dcid': u16(data, 0), 'scid': u16(data, 2)}
    if code == COMMAND_REJECT:
        return {'op': 'reject', 'reason': u16(data, 0)}
    return {'op': f'code{code:#04x}'}


def decode_enhanced_control(lo: int, hi: int) -> dict:
    """The 16-bit enhanced control field; lo is the first octet on the wire."""
    word = lo | (hi << 8)
    if word & 1 == 0:
        return {
            'type': 'I',
            'txseq': (word >> 1) & 0x3F,
            'F': (word >> 7) & 1,
            'reqseq': (word >> 8) & 0x3F,
            'sar': (word >> 14) & 3,
            'P': 0,
            'reserved': 0,
        }
    return {
        'type': 'S',
        'S': (word >> 2) & 3,
        'P': (word >> 4) & 1,
        'F': (word >> 7) & 1,
        'reqseq': (word >> 8) & 0x3F,
        'reserved': (word & 0x0002) | (word & 0x0060) | (word & 0xC000),
    }


def fmt_control(c: dict) -> str:
    if c['type'] == 'I':
        return f"I(tx={c['txseq']},req={c['reqseq']},{SAR_NAMES[c['sar']]}{',F' if c['F'] else ''})"
    return f"S({('RR', 'REJ', 'RNR', 'SREJ')[c['S']]},req={c['reqseq']}{',P' if c['P'] else ''}{',F' if c['F'] else ''})"


# ---------------------------------------------------------------------------
# monitor
# ---------------------------------------------------------------------------
class EndpointView:
    """What the wire says about one end of the channel."""

    def __init__(self):
        self.cid = None  # this end's own channel id
        self.adv = None  # options of the last Configure Request this end SENT (its receive-side limits)
        self.conf_rsp_ok = False  # this end answered the peer's request with success
        # transmit side (ERTM)
        self.next_txseq = 0
        self.iframes_sent = 0
        self.outstanding = 0  # I-frames sent and not yet acknowledged by a ReqSeq delivered to this end
        self.max_outstanding = 0
        self.last_ack = 0  # last ReqSeq delivered to this end
        self.sar_buf = None  # None = between SDUs; else [sdu_length, bytearray]
        self.sdus_sent = []  # SDUs as carried by the frames this end sent
        # receive side
        self.iframes_delivered = 0
        self.last_reqseq_sent = 0
        self.acked_total = 0  # I-frames this end has acknowledged through the ReqSeq values it sent
        self.sframes_sent = 0
        self.polls_sent = 0
        self.finals_sent = 0
        self.unsolicited_final = 0  # frames sent with F=1 while no P=1 was waiting for an answer
        self.unsolicited_final_s = 0  # ... of which S-frames
        self.pending_polls = 0  # P=1 frames delivered to this end and not yet answered with F=1


class ChannelMonitor:
    """Feed with sent(dev, raw_frame) when a host hands a complete L2CAP frame to
    its controller and delivered(dev, cid, payload) when a host receives one.
    Violations are appended to self.viol as (check, signature-dict, message)."""

    def __init__(self):
        self.ep = [EndpointView(), EndpointView()]
        self.initiator = None
        self.psm = None
        self.conn_result = None
        self.disc_req_by = None
        self.disc_rsp_by = None
        self.viol = []
        self.log = []  # compact textual log of the channel's frames
        self.counts = {}
        self.data_frames = 0

    # -- helpers -------------------------------------------------------------
    def _v(self, check, sig, msg):
        self.viol.append((check, sig, msg))

    def _count(self, name, n=1):
        self.counts[name] = self.counts.get(name, 0) + n

    def mode_of(self, e):
        adv = self.ep[e].adv
        if adv is None:
            return None
        return adv['rfc'][0] if 'rfc' in adv else MODE_BASIC

    def channel_mode(self):
        m0, m1 = self.mode_of(0), self.mode_of(1)
        return m0 if m0 == m1 else None

    def fcs_in_use(self):
        """FCS is carried when either end asked for it in its Configure Request."""
        return any(ep.adv is not None and ep.adv.get('fcs', 0) == 1 for ep in self.ep)

    def wire_open(self):
        return (
            self.conn_result == 0
            and all(ep.adv is not None and ep.conf_rsp_ok for ep in self.ep)
            and self.disc_req_by is None
        )

    # -- events --------------------------------------------------------------
    def sent(self, dev: int, raw: bytes):
        try:
            length, cid, payload = split_basic(raw)
        except WireError as e:
            self._v('wire_malformed_frame', {'what': 'basic_header'}, f'dev{dev} sent {raw[:16].hex()}...: {e}')
            return
        if cid == SIG_CID:
            try:
                for code, ident, data in split_commands(payload):
                    self._signalling(dev, decode_command(code, data))
            except (WireError, IndexError) as e:
                self._v('wire_malformed_frame', {'what': 'signalling'}, f'dev{dev} sent signalling {payload.hex()}: {e}')
            return
        peer = self.ep[1 - dev]
        if peer.cid is not None and cid == peer.cid:
            self._data_sent(dev, raw, payload)

    def delivered(self, dev: int, cid: int, payload: bytes):
        me = self.ep[dev]
        if cid == SIG_CID or me.cid is None or cid != me.cid:
            return
        if self.channel_mode() != MODE_ERTM:
            return
        body = payload[:-2] if self.fcs_in_use() else payload
        if len(body) < 2:
            return
        c = decode_enhanced_control(body[0], body[1])
        n = (c['reqseq'] - me.last_ack) % 64
        if n > me.outstanding:
            self._v(
                'ertm_ack_beyond_sent',
                {'kind': 'ack_beyond_sent'},
                f'dev{dev} was delivered {fmt_control(c)} acknowledging {n} frames while only {me.outstanding} are outstanding',
            )
        else:
            me.outstanding -= n
            me.last_ack = c['reqseq']
        if c['type'] == 'I':
            me.iframes_delivered += 1
        if c['P']:
            me.pending_polls += 1

    # -- signalling ------------------------------------------------------------
    def _signalling(self, dev, cmd):
        op = cmd['op']
        me, peer = self.ep[dev], self.ep[1 - dev]
        if op == 'conn_req':
            self.initiator = dev
            self.psm = cmd['psm']
            me.cid = cmd['scid']
            self.log.append(f'{dev}>conn_req(scid={cmd["scid"]:#x})')
        elif op == 'conn_rsp':
            if peer.cid is not None and cmd['scid'] == peer.cid:
                self.conn_result = cmd['result']
                if cmd['result'] == 0:
                    me.cid = cmd['dcid']
                self.log.append(f'{dev}>conn_rsp(result={cmd["result"]})')
        elif op == 'conf_req':
            if peer.cid is not None and cmd['dcid'] == peer.cid:
                me.adv = cmd['options']
                o = cmd['options']
                self.log.append(
                    f'{dev}>conf_req(mtu={o.get("mtu")},rfc={o.get("rfc")},fcs={o.get("fcs")})'
                )
        elif op == 'conf_rsp':
            if peer.cid is not None and cmd['scid'] == peer.cid:
                if cmd['result'] == 0:
                    me.conf_rsp_ok = True
                self.log.append(f'{dev}>conf_rsp(result={cmd["result"]})')
        elif op == 'disc_req':
            if self.disc_req_by is None:
                self.disc_req_by = dev
            self.log.append(f'{dev}>disc_req')
        elif op == 'disc_rsp':
            self.disc_rsp_by = dev
            self.log.append(f'{dev}>disc_rsp')
        else:
            self.log.append(f'{dev}>{op}')

    # -- data ----------------------------------------------------------------
    def _data_sent(self, dev, raw, payload):
        me, peer = self.ep[dev], self.ep[1 - dev]
        self.data_frames += 1
        if not self.wire_open():
            self._v('wire_data_before_open', {'kind': 'data_before_open'}, f'dev{dev} sent a data frame while the channel is not open on the wire: {self.log[-6:]}')
        mode = self.channel_mode()
        if mode is None:
            self._v('wire_data_mode_mismatch', {'kind': 'data_on_mismatched_channel'}, f'dev{dev} sent data on a channel configured {self.mode_of(0)}/{self.mode_of(1)}')
            return
        body = payload
        if self.fcs_in_use():
            if len(payload) < 2:
                self._v('wire_fcs', {'kind': 'fcs_missing'}, f'dev{dev} sent a {len(payload)}-octet frame on a channel with FCS')
                return
            body = payload[:-2]
            want = crc16(raw[:-2])
            got = u16(payload, len(payload) - 2)
            self._count('fcs_checked')
            if want != got:
                self._v('wire_fcs', {'kind': 'fcs_wrong'}, f'dev{dev} sent frame {raw[:12].hex()}... with FCS {got:#06x}, CRC-16 of the frame is {want:#06x}')
        peer_mtu = peer.adv.get('mtu', 672)
        if mode == MODE_BASIC:
            self.log.append(f'{dev}>B[{len(body)}]')
            if len(body) > peer_mtu:
                self._v('wire_mtu', {'kind': 'basic_frame_exceeds_mtu'}, f'dev{dev} sent a {len(body)}-octet B-frame, peer MTU is {peer_mtu}')
            me.sdus_sent.append(bytes(body))
            return
        if mode != MODE_ERTM:
            return
        if len(body) < 2:
            self._v('wire_malformed_frame', {'what': 'no_control_field'}, f'dev{dev} sent a {len(body)}-octet frame in ERTM')
            return
        c = decode_enhanced_control(body[0], body[1])
        self.log.append(f'{dev}>{fmt_control(c)}')
        # ReqSeq can only acknowledge I-frames that were delivered to this end
        ahead = (c['reqseq'] - me.last_reqseq_sent) % 64
        room = me.iframes_delivered - me.acked_total
        if ahead > room:
            self._v(
                'ertm_reqseq_ahead',
                {'kind': 'reqseq_ahead'},
                f'dev{dev} sent {fmt_control(c)}: ReqSeq advances by {ahead} but only {room} unacknowledged I-frames were delivered to it',
            )
        else:
            me.acked_total += ahead
            me.last_reqseq_sent = c['reqseq']
        if c['F']:
            me.finals_sent += 1
            if me.pending_polls > 0:
                me.pending_polls -= 1
            else:
                me.unsolicited_final += 1
                if c['type'] == 'S':
                    me.unsolicited_final_s += 1
        if c['type'] == 'S':
            me.sframes_sent += 1
            if c['P']:
                me.polls_sent += 1
            if len(body) != 2:
                self._v('wire_malformed_frame', {'what': 's_frame_length'}, f'dev{dev} sent an S-frame with {len(body) - 2} payload octets')
            if c['reserved']:
                self._count('s_frame_reserved_bits_set')
            return
        # ---- I-frame ----
        me.iframes_sent += 1
        if c['txseq'] != me.next_txseq:
            self._v(
                'ertm_txseq_gap',
                {'kind': 'txseq_gap'},
                f'dev{dev} sent I-frame TxSeq {c["txseq"]} where {me.next_txseq} follows the previous one (frame #{me.iframes_sent}): {self.log[-5:]}',
            )
        me.next_txseq = (c['txseq'] + 1) % 64
        window = peer.adv['rfc'][1]
        me.outstanding += 1
        me.max_outstanding = max(me.max_outstanding, me.outstanding)
        if me.outstanding > window:
            self._v(
                'ertm_window_exceeded',
                {'kind': 'window_exceeded'},
                f'dev{dev} has {me.outstanding} unacknowledged I-frames, peer advertised TxWindow {window}: {self.log[-6:]}',
            )
        info = body[2:]
        sar = c['sar']
        peer_mps = peer.adv['rfc'][5]
        if sar == SAR_START:
            if len(info) < 2:
                self._v('ertm_sar_malformed', {'kind': 'start_without_length'}, f'dev{dev} sent a START frame of {len(info)} octets')
                return
            sdu_len = u16(info, 0)
            data = info[2:]
        else:
            sdu_len = None
            data = info
        if len(data) > peer_mps:
            self._v('ertm_mps_exceeded', {'kind': 'mps_exceeded', 'sar': SAR_NAMES[sar]}, f'dev{dev} sent {len(data)} octets of SDU data in one {SAR_NAMES[sar]} I-frame, peer MPS is {peer_mps}')
        if sar in (SAR_UNSEGMENTED, SAR_START):
            if me.sar_buf is not None:
                self._v('ertm_sar_malformed', {'kind': f'{SAR_NAMES[sar]}_inside_sdu'}, f'dev{dev} sent {SAR_NAMES[sar]} while an SDU was being segmented: {self.log[-5:]}')
                me.sar_buf = None
            if sar == SAR_UNSEGMENTED:
                self._sdu_complete(dev, bytes(data), peer_mtu)
            else:
                if sdu_len <= peer_mps:
                    self._count('start_for_sdu_that_fits')
                me.sar_buf = [sdu_len, bytearray(data)]
        else:
            if me.sar_buf is None:
                self._v('ertm_sar_malformed', {'kind': f'{SAR_NAMES[sar]}_outside_sdu'}, f'dev{dev} sent {SAR_NAMES[sar]} with no START before it: {self.log[-5:]}')
                return
            me.sar_buf[1] += data
            if sar == SAR_END:
                sdu_len, buf = me.sar_buf
                me.sar_buf = None
                if len(buf) != sdu_len:
                    self._v('ertm_sar_malformed', {'kind': 'sdu_length_mismatch'}, f'dev{dev}: START announced {sdu_len} octets, segments carried {len(buf)}')
                self._sdu_complete(dev, bytes(buf), peer_mtu)
            elif len(me.sar_buf[1]) >= me.sar_buf[0]:
                self._v('ertm_sar_malformed', {'kind': 'continuation_past_length'}, f'dev{dev}: CONTINUATION frames reach {len(me.sar_buf[1])} octets, SDU length is {me.sar_buf[0]}')

    def _sdu_complete(self, dev, sdu, peer_mtu):
        self.ep[dev].sdus_sent.append(sdu)
        if len(sdu) > peer_mtu:
            self._v('wire_mtu', {'kind': 'sdu_exceeds_mtu'}, f'dev{dev} sent a {len(sdu)}-octet SDU, peer MTU is {peer_mtu}')

    def unfinished_sdu(self, dev):
        """(announced length, octets sent) of an SDU this end started and has not ended, or None."""
        b = self.ep[dev].sar_buf
        return None if b is None else (b[0], len(b[1]))
