"""C17 wire side: well-formed seed PDUs written from the specifications, the mutation
operators, the byte-string sweeps and the independent decoders used by the oracle.

Nothing here imports bumble (the HCI event seeds, which need the registry of event
classes, are produced in c17_beds.hci_seeds).  A *seed* is
    Seed(name, chan, data, lens=[(offset, size, 'le'|'be'|'ea')], op=offset_of_opcode_byte | None)
where `lens` lists the length / count fields of the PDU.  A *mutant* is a tuple
    (descr, chan, data)
with `descr` a short stable string such as 'att.read_req|trunc@2'.

Channels (resolved to CIDs / injection seams by the beds):
    'att' 'smp' 'lesig' 'sig'   fixed channels 4, 6, 5, 1
    'dyn'                       the dynamic channel the bed opened for its protocol
    'at'                        AT text carried in an RFCOMM UIH frame on the live DLC
    'hci'                       raw HCI packet fed to victim.host.on_packet
    'acl'                       raw L2CAP frame (header included) as one ACL payload over the link
"""
from __future__ import annotations

import struct
from typing import Iterable, NamedTuple


class Seed(NamedTuple):
    name: str
    chan: str
    data: bytes
    lens: tuple = ()
    op: int | None = 0


def h(s: str) -> bytes:
    return bytes.fromhex(s.replace(' ', ''))


# ---------------------------------------------------------------------------
# RFCOMM reference encoder (TS 07.10 / RFCOMM spec)
# ---------------------------------------------------------------------------
def rfcomm_fcs(data: bytes) -> int:
    crc = 0xFF
    for b in data:
        crc ^= b
        for _ in range(8):
            crc = (crc >> 1) ^ 0xE0 if crc & 1 else crc >> 1
    return 0xFF - crc


SABM, UA, DM, DISC, UIH = 0x2F, 0x63, 0x0F, 0x43, 0xEF


def rfcomm_frame(ftype: int, dlci: int, cr: int, pf: int, payload: bytes = b'', credits: int | None = None) -> bytes:
    addr = (dlci << 2) | (cr << 1) | 1
    ctrl = ftype | (pf << 4)
    n = len(payload)
    ln = bytes([(n << 1) | 1]) if n <= 0x7F else bytes([(n & 0x7F) << 1, n >> 7])
    head = bytes([addr, ctrl]) + ln
    body = (bytes([credits]) if credits is not None else b'') + payload
    fcs = rfcomm_fcs(head[:2]) if ftype == UIH else rfcomm_fcs(head)
    return head + body + bytes([fcs])


def rfcomm_fix_fcs(frame: bytes) -> bytes:
    """Recompute the FCS octet of a (possibly mutated) frame the way a careful attacker would."""
    if len(frame) < 4:
        return frame
    if frame[1] & 0xEF == UIH:
        cov = frame[:2]
    else:
        cov = frame[: (3 if frame[2] & 1 else 4)]
    return frame[:-1] + bytes([rfcomm_fcs(cov)])


def rfcomm_mcc(mtype: int, cr: int, value: bytes) -> bytes:
    n = len(value)
    ln = bytes([(n << 1) | 1]) if n <= 0x7F else bytes([(n & 0x7F) << 1, ((n >> 7) << 1) | 1])
    return bytes([(mtype << 2) | (cr << 1) | 1]) + ln + value


def rfcomm_decode(frame: bytes):
    """-> (type, dlci, pf, fcs_ok, length_ok) or None if too short.  Independent of bumble."""
    if len(frame) < 4:
        return None
    addr, ctrl = frame[0], frame[1]
    ftype = ctrl & 0xEF
    if frame[2] & 1:
        n, pos = frame[2] >> 1, 3
    else:
        n, pos = (frame[2] >> 1) | (frame[3] << 7), 4
    cov = frame[:2] if ftype == UIH else frame[:pos]
    fcs_ok = rfcomm_fcs(cov) == frame[-1]
    return ftype, addr >> 2, (ctrl >> 4) & 1, fcs_ok, len(frame) == pos + n + 1


def at_uih(dlci: int, cr: int, text: bytes, credits: int | None = None) -> bytes:
    return rfcomm_frame(UIH, dlci, cr, 1 if credits is not None else 0, text, credits)


# ---------------------------------------------------------------------------
# seeds
# ---------------------------------------------------------------------------
def att_seeds() -> list[Seed]:
    S = []

    def a(name, hexs, lens=()):
        S.append(Seed('att.' + name, 'att', h(hexs), tuple(lens), 0))

    # client -> server
    a('mtu_req', '02 1700')
    a('find_info_req', '04 0100 ffff')
    a('find_by_type_value_req', '06 0100 ffff 0028 0018')
    a('read_by_type_req', '08 0100 ffff 0328')
    a('read_by_type_req128', '08 0100 ffff 00112233445566778899aabbccddeeff')
    a('read_req', '0a 0300')
    a('read_blob_req', '0c 0300 0100')
    a('read_multiple_req', '0e 0300 0500')
    a('read_by_group_type_req', '10 0100 ffff 0028')
    a('write_req', '12 0900 0200')
    a('prepare_write_req', '16 0900 0000 02')
    a('execute_write_req', '18 01')
    a('confirmation', '1e')
    a('read_multiple_variable_req', '20 0300 0500')
    a('write_cmd', '52 0b00 01')
    a('signed_write_cmd', 'd2 0b00 01 000000000102030405060708')
    # server -> client
    a('error_rsp', '01 0a 0300 0a')
    a('mtu_rsp', '03 1700')
    a('find_info_rsp', '05 01 0100 0028')
    a('find_info_rsp128', '05 02 0100 00112233445566778899aabbccddeeff')
    a('find_by_type_value_rsp', '07 0100 0500')
    a('read_by_type_rsp', '09 04 0100 aabb', [(1, 1, 'le')])
    a('read_rsp', '0b 41')
    a('read_blob_rsp', '0d 41')
    a('read_multiple_rsp', '0f 4142')
    a('read_by_group_type_rsp', '11 06 0100 0500 0018', [(1, 1, 'le')])
    a('write_rsp', '13')
    a('prepare_write_rsp', '17 0900 0000 02')
    a('execute_write_rsp', '19')
    a('notification', '1b 0300 41')
    a('indication', '1d 0300 41')
    a('read_multiple_variable_rsp', '21 0100 41', [(1, 2, 'le')])
    a('multiple_notification', '23 0300 0100 41', [(3, 2, 'le')])
    return S


ATT_OPCODES = {0x01, 0x02, 0x03, 0x04, 0x05, 0x06, 0x07, 0x08, 0x09, 0x0A, 0x0B, 0x0C, 0x0D, 0x0E, 0x0F, 0x10, 0x11, 0x12, 0x13,
               0x16, 0x17, 0x18, 0x19, 0x1B, 0x1D, 0x1E, 0x20, 0x21, 0x23, 0x52, 0xD2}


def smp_seeds() -> list[Seed]:
    S = []

    def a(name, hexs):
        S.append(Seed('smp.' + name, 'smp', h(hexs), (), 0))

    k16 = '101112131415161718191a1b1c1d1e1f'
    a('pairing_req', '01 03 00 01 10 07 07')
    a('pairing_req_sc', '01 03 00 0d 10 07 07')
    a('pairing_rsp', '02 03 00 01 10 07 07')
    a('confirm', '03' + k16)
    a('random', '04' + k16)
    a('failed', '05 08')
    a('encryption_info', '06' + k16)
    a('master_identification', '07 3412 0102030405060708')
    a('identity_info', '08' + k16)
    a('identity_address_info', '09 00 f0f0f0f0f0f0')
    a('signing_info', '0a' + k16)
    a('security_req', '0b 01')
    a('public_key', '0c' + k16 * 4)
    a('dhkey_check', '0d' + k16)
    a('keypress', '0e 00')
    return S


SMP_CODES = set(range(1, 0x0F))


def l2cap_sig_seeds(chan: str) -> list[Seed]:
    S = []

    def a(name, code, data_hex, extra_lens=()):
        d = h(data_hex)
        S.append(Seed('l2cap.' + name, chan, bytes([code, 0x21]) + struct.pack('<H', len(d)) + d, ((2, 2, 'le'),) + tuple(extra_lens), 0))

    a('command_reject', 0x01, '0000')
    a('connection_req_sdp', 0x02, '0100 5000')
    a('connection_req_nopsm', 0x02, '0110 5100')
    a('connection_rsp', 0x03, '4000 4000 0000 0000')
    a('configure_req', 0x04, '4000 0000 01 02 0004', [(9, 1, 'le')])
    a('configure_req_ertm', 0x04, '4000 0000 04 09 03 0a 0a d007 e02e f003', [(9, 1, 'le')])
    a('configure_rsp', 0x05, '4000 0000 0000')
    a('disconnection_req', 0x06, '4100 4100')
    a('disconnection_rsp', 0x07, '4100 4100')
    a('echo_req', 0x08, 'aabb')
    a('echo_rsp', 0x09, '')
    a('information_req', 0x0A, '0200')
    a('information_rsp', 0x0B, '0200 0000 b8020000')
    a('conn_param_update_req', 0x12, '0600 0c00 0000 c800')
    a('conn_param_update_rsp', 0x13, '0000')
    a('le_credit_conn_req', 0x14, '8000 4200 0001 0001 0a00')
    a('le_credit_conn_rsp', 0x15, '4200 0001 0001 0a00 0000')
    a('flow_control_credit', 0x16, '4000 0100')
    a('credit_conn_req', 0x17, '8000 0001 0001 0a00 4300')
    a('credit_conn_rsp', 0x18, '0001 0001 0a00 0000 4300')
    a('credit_reconfigure_req', 0x19, '0001 0001 4000')
    a('credit_reconfigure_rsp', 0x1A, '0000')
    return S


def le_coc_seeds(rx_cid: int, mtu: int, mps: int) -> list[Seed]:
    """K-frames (LE credit-based flow control mode, Vol 3 Part A 3.4): the first frame of an SDU starts
    with the 2-octet SDU length; plus the credit packets that refer to the channel."""
    S = []

    def a(name, data, lens=((0, 2, 'le'),), chan='dyn', op=None):
        S.append(Seed('lecoc.' + name, chan, data, tuple(lens), op))

    a('sdu_complete', struct.pack('<H', 4) + b'abcd')
    a('sdu_first_of_two', struct.pack('<H', 8) + b'abcd')
    a('sdu_continuation', b'efgh', lens=())
    a('sdu_len_0', struct.pack('<H', 0))
    a('sdu_len_1', struct.pack('<H', 1) + b'a')
    a('sdu_len_mtu', struct.pack('<H', mtu) + b'a' * 8)
    a('sdu_len_over_mtu', struct.pack('<H', mtu + 1) + b'a' * 8)
    a('sdu_len_max', struct.pack('<H', 0xFFFF) + b'a' * 8)
    a('pdu_over_mps', struct.pack('<H', mps + 8) + b'a' * (mps + 8))
    a('sdu_overflow', struct.pack('<H', 2) + b'abcd')
    cid = struct.pack('<H', rx_cid)
    for name, n in (('credit_1', 1), ('credit_0', 0), ('credit_max', 0xFFFF), ('credit_8000', 0x8000)):
        a(name, bytes([0x16, 0x31, 4, 0]) + cid + struct.pack('<H', n), lens=((2, 2, 'le'),), chan='lesig', op=0)
    a('credit_unknown_cid', bytes([0x16, 0x31, 4, 0]) + b'\x7f\x00\x01\x00', lens=((2, 2, 'le'),), chan='lesig', op=0)
    return S


L2CAP_CODES = {0x01, 0x02, 0x03, 0x04, 0x05, 0x06, 0x07, 0x08, 0x09, 0x0A, 0x0B, 0x12, 0x13, 0x14, 0x15, 0x16, 0x17, 0x18, 0x19, 0x1A}


def sdp_pdu(pdu_id: int, tid: int, params: bytes) -> bytes:
    return bytes([pdu_id]) + struct.pack('>HH', tid, len(params)) + params


def sdp_nested(depth: int, consistent: bool, size_bytes: int = 1) -> bytes:
    """A sequence nested `depth` deep around one UUID16 element (built iteratively)."""
    desc = {1: 0x35, 2: 0x36, 4: 0x37}[size_bytes]
    inner = h('19 0100')
    if not consistent:
        # every level claims the largest size its descriptor can express
        return b''.join(bytes([desc]) + b'\xff' * size_bytes for _ in range(depth)) + inner
    out = inner
    parts = []
    n = len(out)
    for _ in range(depth):
        if size_bytes == 1 and n > 0xFF or size_bytes == 2 and n > 0xFFFF:
            raise ValueError('too deep for the size descriptor')
        parts.append(bytes([desc]) + n.to_bytes(size_bytes, 'big'))
        n += 1 + size_bytes
    return b''.join(reversed(parts)) + inner


def sdp_seeds() -> list[Seed]:
    S = []

    def a(name, pdu_id, params_hex, extra=()):
        p = h(params_hex)
        S.append(Seed('sdp.' + name, 'dyn', sdp_pdu(pdu_id, 0x0102, p), ((3, 2, 'be'),) + tuple((5 + o, s, e) for o, s, e in extra), 0))

    a('error_rsp', 0x01, '0003')
    a('service_search_req', 0x02, '35 03 19 0100 000a 00', [(1, 1, 'be'), (7, 1, 'be')])
    a('service_search_req_cont', 0x02, '35 03 19 0100 000a 02 0100', [(1, 1, 'be'), (7, 1, 'be')])
    a('service_search_rsp', 0x03, '0001 0001 00010001 00', [(0, 2, 'be'), (2, 2, 'be'), (8, 1, 'be')])
    a('service_attribute_req', 0x04, '00010001 0040 35 05 0a 0000ffff 00', [(7, 1, 'be'), (13, 1, 'be')])
    a('service_attribute_rsp', 0x05, '0007 35 05 09 0000 09 0001 00', [(0, 2, 'be'), (3, 1, 'be'), (9, 1, 'be')])
    a('service_search_attribute_req', 0x06, '35 03 19 0100 0040 35 05 0a 0000ffff 00', [(1, 1, 'be'), (8, 1, 'be'), (14, 1, 'be')])
    a('service_search_attribute_req_ids', 0x06, '35 03 19 0100 ffff 35 06 09 0000 09 0001 00', [(1, 1, 'be'), (8, 1, 'be')])
    a('service_search_attribute_rsp', 0x07, '0009 35 07 35 05 09 0000 09 0001 00', [(0, 2, 'be'), (3, 1, 'be'), (5, 1, 'be'), (11, 1, 'be')])
    return S


SDP_IDS = {1, 2, 3, 4, 5, 6, 7}


def sdp_nesting_mutants(quick: bool) -> list[tuple]:
    """Deeply nested data elements inside ServiceSearch / ServiceSearchAttribute requests."""
    out = []
    depths = [1, 31, 32, 33, 120, 1000, 10000]
    for depth in depths:
        for consistent in (True, False):
            for sb in (1, 2, 4):
                if consistent and sb == 1 and depth > 120:
                    continue  # not expressible: a 1-byte size cannot hold > 255 bytes
                if consistent and sb == 2 and (3 + 3 * depth) > 0xFFFF:
                    continue
                if sb != 1 and depth == 120:
                    continue
                try:
                    pat = sdp_nested(depth, consistent, sb)
                except ValueError:
                    continue
                if len(pat) > 60000:
                    continue
                for pid, tail in ((0x02, h('000a 00')), (0x06, h('0040 35 05 0a 0000ffff 00'))):
                    out.append((f'sdp.nested|id={pid}|depth={depth}|sz={sb}|{"ok" if consistent else "bad"}', 'dyn', sdp_pdu(pid, 0x0103, pat + tail)))
                # nesting inside the attribute-id list as well
                out.append((f'sdp.nested_attr|depth={depth}|sz={sb}|{"ok" if consistent else "bad"}', 'dyn',
                            sdp_pdu(0x06, 0x0104, h('35 03 19 0100 0040') + pat + b'\x00')))
    return out


SDP_SIBLINGS = {'eseq': h('35 00'), 'ealt': h('3d 00'), 'nil': h('00'), 'seq1': h('35 03 19 0100')}
SDP_MIXED_DEPTHS = (31, 32, 33, 40, 200, 1000, 5000)


def sdp_mixed(depth: int, k: int, sib: str, mirror: bool, alt: bool) -> bytes | None:
    """Wide + deep: every level holds k completed siblings and then (mirror: first) the deeper child; all
    sizes consistent.  Built iteratively from the inside; None when a size does not fit 16 bits."""
    base = 0x3D if alt else 0x35
    sibs = SDP_SIBLINGS[sib] * k
    inner = bytes([base, 0])  # innermost: empty container
    for _ in range(depth):
        body = (inner + sibs) if mirror else (sibs + inner)
        n = len(body)
        if n <= 0xFF:
            inner = bytes([base, n]) + body
        elif n <= 0xFFFF:
            inner = bytes([base + 1]) + n.to_bytes(2, 'big') + body
        else:
            return None
    return inner


def sdp_mixed_mutants(server: bool) -> list[tuple]:
    """The mixed shapes as raw channel payload, as service search pattern and as attribute-id list of every
    request PDU (server bed), or as the attribute list(s) of the two attribute response PDUs (client bed)."""
    out = []
    skipped = 0
    for depth in SDP_MIXED_DEPTHS:
        for k in (1, 2):
            for sib in SDP_SIBLINGS:
                for mirror in (False, True):
                    for alt in (False, True):
                        e = sdp_mixed(depth, k, sib, mirror, alt)
                        lab = f'depth={depth}|k={k}|{sib}|{"childfirst" if mirror else "childlast"}|{"alt" if alt else "seq"}'
                        if e is None or len(e) > 60000:
                            skipped += 1
                            continue
                        out.append((f'sdp.mixed_raw|{lab}', 'dyn', e))
                        if server:
                            out.append((f'sdp.mixed_pattern02|{lab}', 'dyn', sdp_pdu(0x02, 0x0105, e + h('000a 00'))))
                            out.append((f'sdp.mixed_pattern06|{lab}', 'dyn', sdp_pdu(0x06, 0x0106, e + h('ffff 35 05 0a 0000ffff 00'))))
                            out.append((f'sdp.mixed_attrs04|{lab}', 'dyn', sdp_pdu(0x04, 0x0107, h('00010001 ffff') + e + b'\x00')))
                            out.append((f'sdp.mixed_attrs06|{lab}', 'dyn', sdp_pdu(0x06, 0x0108, h('35 03 19 0100 ffff') + e + b'\x00')))
                        else:
                            n = len(e).to_bytes(2, 'big')
                            out.append((f'sdp.mixed_rsp05|{lab}', 'dyn', sdp_pdu(0x05, 0x0109, n + e + b'\x00')))
                            out.append((f'sdp.mixed_rsp07|{lab}', 'dyn', sdp_pdu(0x07, 0x010A, n + e + b'\x00')))
    return out


def sdp_nesting_response_mutants() -> list[tuple]:
    """Pure chains (sdp_nested) as the attribute lists of the two attribute responses (client bed)."""
    out = []
    for depth in (1, 31, 32, 33, 120, 1000, 10000):
        for consistent in (True, False):
            for sb in (1, 2, 4):
                try:
                    e = sdp_nested(depth, consistent, sb)
                except ValueError:
                    continue
                if len(e) > 60000 or (consistent and sb == 1 and depth > 120) or (consistent and sb == 2 and 3 + 3 * depth > 0xFFFF):
                    continue
                for pid in (0x05, 0x07):
                    out.append((f'sdp.nested_rsp{pid:02x}|depth={depth}|sz={sb}|{"ok" if consistent else "bad"}', 'dyn',
                                sdp_pdu(pid, 0x010B, len(e).to_bytes(2, 'big') + e + b'\x00')))
    return out


HCI_FRAMING = {0x01: (2, 1), 0x02: (2, 2), 0x03: (2, 1), 0x04: (1, 1), 0x05: (2, 2)}  # type -> (octets before length, length size)


def hci_well_framed(pkt: bytes) -> bool:
    """Would a byte-stream transport deliver exactly these bytes as ONE packet and stay in step?  (A lone
    octet that is no packet type is rejected by a framer without consuming anything else.)"""
    if len(pkt) == 0:
        return False
    info = HCI_FRAMING.get(pkt[0])
    if info is None:
        return len(pkt) == 1
    pre, lsz = info
    if len(pkt) < 1 + pre + lsz:
        return False
    n = int.from_bytes(pkt[1 + pre : 1 + pre + lsz], 'little')
    if pkt[0] == 0x05:
        if n & 0xC000:
            return False  # reserved bits of the ISO length: framers differ, not used here
    return len(pkt) == 1 + pre + lsz + n


def rfcomm_seeds(live_dlci: int, new_dlci: int) -> list[Seed]:
    """Frames as sent by the session initiator (C/R = 1 for commands)."""
    S = []

    def a(name, frame, lens=((2, 1, 'ea'),)):
        S.append(Seed('rfcomm.' + name, 'dyn', frame, tuple(lens), 1))

    def pn(dlci, n1=0x0100, k=7, cl=0xF0):
        return bytes([dlci, cl, 7, 0]) + struct.pack('<H', n1) + bytes([0, k])

    def mcc(name, mtype, cr, value):
        a(name, rfcomm_frame(UIH, 0, 1, 0, rfcomm_mcc(mtype, cr, value)), [(2, 1, 'ea'), (4, 1, 'ea')])

    a('sabm0', rfcomm_frame(SABM, 0, 1, 1))
    a('ua0', rfcomm_frame(UA, 0, 1, 1))
    a('dm0', rfcomm_frame(DM, 0, 1, 1))
    a('disc0', rfcomm_frame(DISC, 0, 1, 1))
    a('sabm_live', rfcomm_frame(SABM, live_dlci, 1, 1))
    a('sabm_new', rfcomm_frame(SABM, new_dlci, 1, 1))
    a('ua_live', rfcomm_frame(UA, live_dlci, 1, 1))
    a('dm_live', rfcomm_frame(DM, live_dlci, 1, 1))
    a('dm_new', rfcomm_frame(DM, new_dlci, 1, 1))
    a('disc_live', rfcomm_frame(DISC, live_dlci, 1, 1))
    a('disc_new', rfcomm_frame(DISC, new_dlci, 1, 1))
    a('ui0', rfcomm_frame(0x03, 0, 1, 0, b'\x00'))
    mcc('pn_cmd_new', 0x20, 1, pn(new_dlci))
    mcc('pn_cmd_live', 0x20, 1, pn(live_dlci))
    mcc('pn_cmd_odd', 0x20, 1, pn(new_dlci | 1))
    mcc('pn_cmd_n1_0', 0x20, 1, pn(new_dlci + 2, n1=0, k=0))
    mcc('pn_rsp', 0x20, 0, pn(new_dlci))
    mcc('msc_cmd', 0x38, 1, bytes([(live_dlci << 2) | 3, 0x8D]))
    mcc('msc_cmd_brk', 0x38, 1, bytes([(live_dlci << 2) | 3, 0x8D, 0x01]))
    mcc('msc_cmd_unknown', 0x38, 1, bytes([(new_dlci << 2) | 3, 0x8D]))
    mcc('msc_rsp', 0x38, 0, bytes([(live_dlci << 2) | 3, 0x8D]))
    mcc('test_cmd', 0x08, 1, b'ping')
    mcc('fcon_cmd', 0x28, 1, b'')
    mcc('fcoff_cmd', 0x18, 1, b'')
    mcc('rpn_cmd', 0x24, 1, bytes([(live_dlci << 2) | 3]))
    mcc('rpn_cmd8', 0x24, 1, bytes([(live_dlci << 2) | 3, 3, 3, 0, 0x11, 0x13, 0x7F, 0x3F]))
    mcc('rls_cmd', 0x14, 1, bytes([(live_dlci << 2) | 3, 0x03]))
    mcc('nsc_rsp', 0x04, 0, bytes([0x21]))
    a('uih_data', rfcomm_frame(UIH, live_dlci, 1, 0, b'AT\r'))
    a('uih_data_credits', rfcomm_frame(UIH, live_dlci, 1, 1, b'AT\r', 3), [(2, 1, 'ea'), (3, 1, 'le')])
    a('uih_credits_only', rfcomm_frame(UIH, live_dlci, 1, 1, b'', 255), [(2, 1, 'ea'), (3, 1, 'le')])
    a('uih_unknown_dlci', rfcomm_frame(UIH, new_dlci, 1, 0, b'AT\r'))
    a('uih_long', rfcomm_frame(UIH, live_dlci, 1, 0, b'A' * 200), [(2, 2, 'ea')])
    return S


def rfcomm_negotiation_scripts(new_dlci: int) -> list[tuple]:
    """Hostile but parseable parameter negotiation followed by real use of the link it negotiated: PN command for a
    fresh DLCI (the victim has an echoing acceptor there) with every frame size N1 in {0..6, 23} x initial credits k in
    {0, 1, 7}, then SABM, then data frames (with and without a credit grant) that the victim echoes under the negotiated
    parameters, then DISC so the next script starts from a closed DLCI again."""
    out = []
    for n1 in (0, 1, 2, 3, 4, 5, 6, 23):
        for k in (0, 1, 7):
            for cl in (0xF0, 0x00):
                pn = bytes([new_dlci, cl, 7, 0]) + struct.pack('<H', n1) + bytes([0, k])
                frames = (
                    rfcomm_frame(UIH, 0, 1, 0, rfcomm_mcc(0x20, 1, pn)),
                    rfcomm_frame(SABM, new_dlci, 1, 1),
                    rfcomm_frame(UIH, new_dlci, 1, 1, b'hello', 8),
                    rfcomm_frame(UIH, new_dlci, 1, 0, b'w' * 30),
                    rfcomm_frame(UIH, new_dlci, 1, 1, b'', 3),
                    rfcomm_frame(DISC, new_dlci, 1, 1),
                )
                out.append((f'rfcomm.negotiate|n1={n1}+k={k}+cl={cl:02x}', 'dyn', frames))
    return out


RFCOMM_TYPES = {SABM, UA, DM, DISC, UIH, 0x03}

# --- AT ------------------------------------------------------------------------
AG_COMMANDS = [
    'AT+BRSF=127', 'AT+BAC=1,2', 'AT+BCS=1', 'AT+BVRA=1', 'AT+CHLD=1', 'AT+CHLD=12', 'AT+CHLD=?', 'AT+CIND=?', 'AT+CIND?',
    'AT+CMER=3,0,0,1', 'AT+CMER=3,,,1', 'AT+CMEE=1', 'AT+CCWA=1', 'AT+BIND=1,2', 'AT+BIND=?', 'AT+BIND?', 'AT+BIEV=1,1',
    'AT+BIEV=2,50', 'AT+BIA=1,1,,0', 'AT+BCC', 'ATA', 'ATD123;', 'ATD>1;', 'AT+CHUP', 'AT+CLCC', 'AT+CLIP=1', 'AT+VGS=5', 'AT+VGM=5',
    'AT+COPS=3,0', 'AT+COPS?', 'AT+NREC=0', 'AT+BLDN', 'AT+VTS=1', 'AT+CNUM', 'AT+BTRH?', 'AT+XAPL=ABCD-1234-0100,10', 'AT+BINP=1',
]

HF_RESULTS = [
    'OK', 'ERROR', '+CME ERROR: 30', 'NO CARRIER', 'BUSY', 'NO ANSWER', 'DELAYED', 'BLACKLISTED', 'RING',
    '+BRSF: 1023', '+CIND: ("call",(0,1)),("callsetup",(0-3)),("service",(0-1))', '+CIND: 0,0,1', '+CHLD: (0,1,1x,2,2x,3,4)',
    '+BCS: 1', '+BCS: 2', '+CIEV: 1,1', '+CIEV: 2,0', '+VGS: 5', '+VGM: 5', '+CLIP: "5551234",129', '+CLIP: "5551234",129,,,"Bob",0',
    '+BVRA: 1', '+BIND: (1,2)', '+BIND: 1,1', '+CLCC: 1,0,0,0,0,"5551234",129', '+COPS: 0,0,"op"', '+CCWA: "5551234",129',
    '+CNUM: ,"5551234",129,,4', '+BSIR: 1', '+BTRH: 0', '+BINP: "5551234"',
]


def at_malformed_lines(to_ag: bool) -> list[tuple[str, bytes]]:
    """The grammar of malformed forms of DESIGN §3 C17 (each complete with its terminator unless
    the form *is* the missing terminator)."""
    forms: list[tuple[str, str]] = [
        ('empty', ''), ('at', 'AT'), ('at_plus', 'AT+'), ('at_plus_x_eq', 'AT+X='), ('lower', 'at+cind?'), ('no_prefix', 'CIND?'),
        ('unbalanced_quote', 'AT+BRSF="12'), ('quote_after_char', 'AT+BRSF=1"2"'), ('unbalanced_open', 'AT+BIND=(1,2'),
        ('unbalanced_close', 'AT+BIND=1,2)'), ('paren_after_char', 'AT+BIND=1(2)'), ('nested_parens', 'AT+BIND=' + '(' * 50 + '1' + ')' * 50),
        ('deep_open', 'AT+BIND=' + '(' * 2000), ('commas_1000', 'AT+BAC=' + ',' * 1000), ('commas_only', 'AT+CMER=,,,'),
        ('non_numeric', 'AT+BRSF=abc'), ('non_numeric_vgs', 'AT+VGS=x'), ('negative', 'AT+VGS=-1'), ('huge_int', 'AT+BRSF=' + '9' * 400),
        ('float', 'AT+VGS=1.5'), ('hex', 'AT+BRSF=0x10'), ('digit_code', 'AT+1234'), ('code_with_space', 'AT+ CIND?'),
        ('embedded_nul', 'AT+BRSF=1\x002'), ('nul_only', '\x00'), ('space_only', ' '), ('semicolon_chain', 'AT+VGS=5;+VGM=5'),
        ('double_eq', 'AT+VGS==5'), ('eq_q_extra', 'AT+CIND=?1'), ('q_extra', 'AT+CIND?1'), ('chld_bad', 'AT+CHLD=9'), ('chld_idx', 'AT+CHLD=1x'),
        ('chld_long', 'AT+CHLD=1abc'), ('biev_bad', 'AT+BIEV=99,1'), ('biev_nonnum', 'AT+BIEV=a,b'), ('bcs_unknown', 'AT+BCS=99'),
        ('bac_unknown', 'AT+BAC=99'), ('bind_nonnum', 'AT+BIND=a'), ('bia_long', 'AT+BIA=' + ','.join(['1'] * 40)), ('bvra_bad', 'AT+BVRA=7'),
        ('cmer_bad', 'AT+CMER=x'), ('cmer_short', 'AT+CMER=3'), ('atd_empty', 'ATD'), ('ata_extra', 'ATAxyz'), ('long_line', 'AT+' + 'A' * 5000),
        ('clip_two', 'AT+CLIP=1,2'), ('cmee_none', 'AT+CMEE='), ('ccwa_none', 'AT+CCWA'), ('vgm_two', 'AT+VGM=1,2'),
    ]
    # wrong arity for every handler: each command with no, one more and three more arguments
    for c in AG_COMMANDS:
        base = c.split('=')[0].split('?')[0]
        if base.startswith('AT+'):
            forms.append((f'arity0:{base}', base + '='))
            forms.append((f'arity_bare:{base}', base))
            forms.append((f'arity4:{base}', base + '=1,2,3,4'))
            forms.append((f'arity_list:{base}', base + '=(1,2),(3)'))
    out = []
    for name, text in forms:
        raw = text.encode('latin-1')
        if to_ag:
            out.append((name, raw + b'\r'))
        else:
            out.append((name, b'\r\n' + raw.replace(b'AT+', b'+', 1).replace(b'=', b': ', 1) + b'\r\n'))
    # framing deviations
    if to_ag:
        out += [
            ('missing_cr', b'AT+CIND?'), ('lf_only', b'AT+CIND?\n'), ('crlf', b'AT+CIND?\r\n'), ('cr_first', b'\rAT+CIND?'), ('double_cr', b'\r\r'),
            ('non_utf8', b'AT+\xff\xfe?\r'), ('non_utf8_param', b'AT+BRSF=\xff\r'), ('non_utf8_bare', b'\xff\r'), ('two_in_one', b'AT+VGS=5\rAT+VGM=5\r'),
            ('bad_then_good', b'XYZ\rAT+VGS=5\r'),
        ]
    else:
        out += [
            ('missing_trailer', b'\r\n+CIEV: 1,1'), ('missing_header', b'+CIEV: 1,1\r\n'), ('lf_only', b'\n+CIEV: 1,1\n'), ('only_crlf', b'\r\n'),
            ('crlf_x4', b'\r\n\r\n\r\n\r\n'), ('non_utf8', b'\r\n+\xff\xfe: 1\r\n'), ('non_utf8_bare', b'\r\n\xff\r\n'), ('colon_only', b'\r\n:\r\n'),
            ('two_colons', b'\r\n+CIEV: 1:1\r\n'), ('ciev_index0', b'\r\n+CIEV: 0,1\r\n'), ('ciev_index99', b'\r\n+CIEV: 99,1\r\n'),
            ('ciev_nonnum', b'\r\n+CIEV: a,b\r\n'), ('ciev_one', b'\r\n+CIEV: 1\r\n'), ('ciev_none', b'\r\n+CIEV:\r\n'), ('bcs_nonnum', b'\r\n+BCS: x\r\n'),
            ('bcs_unknown', b'\r\n+BCS: 99\r\n'), ('bcs_none', b'\r\n+BCS\r\n'), ('vgs_nonnum', b'\r\n+VGS: x\r\n'), ('vgs_none', b'\r\n+VGS\r\n'),
            ('clip_short', b'\r\n+CLIP: "1"\r\n'), ('clip_none', b'\r\n+CLIP\r\n'), ('clip_nonnum', b'\r\n+CLIP: "1",x\r\n'), ('bvra_bad', b'\r\n+BVRA: 9\r\n'),
            ('bvra_none', b'\r\n+BVRA\r\n'), ('ok_params', b'\r\nOK: 1\r\n'), ('error_lower', b'\r\nerror\r\n'), ('cme_nonnum', b'\r\n+CME ERROR: x\r\n'),
            ('unbalanced_open', b'\r\n+CIND: ("call",(0,1)\r\n'), ('unbalanced_close', b'\r\n+CIND: 0,1)\r\n'), ('unbalanced_quote', b'\r\n+CLIP: "555\r\n'),
            ('quote_after_char', b'\r\n+CLIP: 5"55"\r\n'), ('paren_after_char', b'\r\n+CIND: a(1)\r\n'), ('deep_open', b'\r\n+CIND: ' + b'(' * 2000 + b'\r\n'),
            ('commas_1000', b'\r\n+CIND: ' + b',' * 1000 + b'\r\n'), ('embedded_nul', b'\r\n+CIEV: 1\x00,1\r\n'), ('long_line', b'\r\n+' + b'A' * 5000 + b'\r\n'),
            ('two_in_one', b'\r\n+VGS: 5\r\n\r\n+VGM: 5\r\n'), ('bad_then_good', b'\r\n+CIND: a(1)\r\n\r\n+VGS: 5\r\n'),
        ]
    return out


def at_seeds(to_ag: bool) -> list[Seed]:
    if to_ag:
        return [Seed('at.' + c, 'at', c.encode() + b'\r', (), None) for c in AG_COMMANDS]
    return [Seed('at.' + r, 'at', b'\r\n' + r.encode() + b'\r\n', (), None) for r in HF_RESULTS]


# --- AVDTP ---------------------------------------------------------------------
AVDTP_SIGNALS = {
    1: 'discover', 2: 'get_capabilities', 3: 'set_configuration', 4: 'get_configuration', 5: 'reconfigure', 6: 'open', 7: 'start',
    8: 'close', 9: 'suspend', 10: 'abort', 11: 'security_control', 12: 'get_all_capabilities', 13: 'delayreport',
}


def avdtp_seeds() -> list[Seed]:
    S = []
    sbc = '07 06 00 00 21 15 02 35'  # media codec: audio, SBC, 44.1k joint stereo 16 blocks 8 subbands loudness, bitpool 2..53
    caps = '01 00 ' + sbc
    cmd_params = {
        1: '', 2: '04', 3: '04 08 ' + caps, 4: '04', 5: '04 ' + sbc, 6: '04', 7: '04', 8: '04', 9: '04', 10: '04', 11: '04 aabb', 12: '04', 13: '04 0010',
    }
    rsp_params = {
        1: '04 08', 2: caps, 3: '', 4: caps, 5: '', 6: '', 7: '', 8: '', 9: '', 10: '', 11: 'aabb', 12: caps, 13: '',
    }
    rej_params = {1: '19', 2: '12', 3: '07 13', 4: '12', 5: '07 13', 6: '12', 7: '04 31', 8: '12', 9: '04 31', 10: '', 11: '12', 12: '12', 13: '12'}
    for sig, name in AVDTP_SIGNALS.items():
        lens = ()
        if sig in (3,):
            lens = ((5, 1, 'le'), (7, 1, 'le'))
        elif sig in (5,):
            lens = ((4, 1, 'le'),)
        S.append(Seed(f'avdtp.{name}_cmd', 'dyn', bytes([0x30, sig]) + h(cmd_params[sig]), lens, 1))
        rl = ((3, 1, 'le'), (5, 1, 'le')) if sig in (2, 4, 12) else ()
        S.append(Seed(f'avdtp.{name}_rsp', 'dyn', bytes([0x32, sig]) + h(rsp_params[sig]), rl, 1))
        S.append(Seed(f'avdtp.{name}_rej', 'dyn', bytes([0x33, sig]) + h(rej_params[sig]), (), 1))
    S.append(Seed('avdtp.general_reject', 'dyn', bytes([0x31, 0x3F]), (), 1))
    # fragmentation: start / continue / end packets of a set_configuration command
    S.append(Seed('avdtp.start_pkt', 'dyn', bytes([0x34, 3, 2]) + h('04 08 01 00'), ((2, 1, 'le'),), 1))
    S.append(Seed('avdtp.continue_pkt', 'dyn', bytes([0x38]) + h('07 06 00 00'), (), None))
    S.append(Seed('avdtp.end_pkt', 'dyn', bytes([0x3C]) + h('21 15 02 35'), (), None))
    return S


# --- AVCTP / AV/C / AVRCP ------------------------------------------------------
AVRCP_PDU_IDS = [0x10, 0x11, 0x12, 0x13, 0x14, 0x15, 0x16, 0x17, 0x18, 0x20, 0x30, 0x31, 0x40, 0x41, 0x50, 0x60, 0x74, 0x90]


def avctp_seeds() -> list[Seed]:
    S = []

    def a(name, hexs, lens=(), op=6):
        S.append(Seed('avctp.' + name, 'dyn', h(hexs), tuple(lens), op))

    pid = '110e'
    a('unit_info_cmd', f'10 {pid} 01 ff 30 ff ff ff ff ff')
    a('subunit_info_cmd', f'10 {pid} 01 ff 31 07 ff ff ff ff')
    a('pass_through_play', f'10 {pid} 00 48 7c 44 00', [(7, 1, 'le')])
    a('pass_through_vendor', f'10 {pid} 00 48 7c 7e 05 001958 0001', [(7, 1, 'le')])
    a('pass_through_rsp', f'12 {pid} 09 48 7c 44 00', [(7, 1, 'le')])
    a('bad_pid_cmd', '10 1234 01 48 00 001958 10 00 0001 03')
    a('ipid_rsp', f'13 {pid}')
    a('unit_info_rsp', f'12 {pid} 0c ff 30 07 48 ff ff ff')
    a('other_subunit', f'10 {pid} 01 20 00 001958 10 00 0001 03')
    a('other_company', f'10 {pid} 01 48 00 123456 10 00 0001 03')
    params = {
        0x10: '03', 0x11: '', 0x12: '01', 0x13: '01 02', 0x14: '01 02 01', 0x15: '01 02', 0x16: '02 01 02 01', 0x17: '01 006a', 0x18: '',
        0x20: '0000000000000000 01 00000001', 0x30: '', 0x31: '01 00000000', 0x40: '10', 0x41: '10', 0x50: '05', 0x60: '0001',
        0x74: '00 0000000000000001 0001', 0x90: '00 0000000000000001 0001',
    }
    ctype = {0x10: 1, 0x11: 1, 0x12: 1, 0x13: 1, 0x14: 0, 0x15: 1, 0x16: 1, 0x17: 0, 0x18: 0, 0x20: 1, 0x30: 1, 0x31: 3, 0x40: 0, 0x41: 0, 0x50: 0,
             0x60: 0, 0x74: 0, 0x90: 0}
    for p in AVRCP_PDU_IDS:
        body = h(params[p])
        a(f'vendor_cmd_{p:02x}', f'10 {pid} {ctype[p]:02x} 48 00 001958 {p:02x} 00 {len(body):04x} {body.hex()}', [(12, 2, 'be')], op=10)
        a(f'vendor_rsp_{p:02x}', f'12 {pid} 0c 48 00 001958 {p:02x} 00 {len(body):04x} {body.hex()}', [(12, 2, 'be')], op=10)
    # AV/C-level fragmentation of an AVRCP PDU (packet type start / continue / end in the byte after the pdu id)
    a('vendor_cmd_start', f'10 {pid} 01 48 00 001958 20 01 0004 00000000', [(12, 2, 'be')], op=11)
    a('vendor_cmd_continue', f'10 {pid} 01 48 00 001958 20 02 0004 00000000', [(12, 2, 'be')], op=11)
    a('vendor_cmd_end', f'10 {pid} 01 48 00 001958 20 03 0004 00000000', [(12, 2, 'be')], op=11)
    # AVCTP-level fragmentation
    a('avctp_start', f'14 02 {pid} 01 48 00 001958', [(1, 1, 'le')], op=0)
    a('avctp_continue', '18 10 00 00', op=0)
    a('avctp_end', '1c 01 03', op=0)
    return S


# ---------------------------------------------------------------------------
# mutation operators
# ---------------------------------------------------------------------------
def _len_values(actual: int, size: int, enc: str) -> list[int]:
    mx = (1 << (8 * size)) - 1
    vals = []
    for v in (0, 1, actual - 1, actual + 1, mx):
        if 0 <= v <= mx and v != actual and v not in vals:
            vals.append(v)
    return vals


def _read_len(data: bytes, off: int, size: int, enc: str) -> int | None:
    if off + size > len(data):
        return None
    if enc == 'ea':
        if size == 1:
            return data[off] >> 1
        return (data[off] >> 1) | (data[off + 1] << 7)
    return int.from_bytes(data[off : off + size], 'big' if enc == 'be' else 'little')


def _write_len(data: bytes, off: int, size: int, enc: str, v: int) -> bytes:
    if enc == 'ea':
        if size == 1:
            raw = bytes([((v << 1) | 1) & 0xFF])
        else:
            raw = bytes([(v & 0x7F) << 1, (v >> 7) & 0xFF])
    else:
        raw = v.to_bytes(size, 'big' if enc == 'be' else 'little')
    return data[:off] + raw + data[off + size :]


def deviations(seed: Seed, with_opcode: bool = True) -> list[tuple[str, callable]]:
    """Single deviations applicable to `seed`, as (label, function bytes->bytes)."""
    d = seed.data
    n = len(d)
    devs: list[tuple[str, callable]] = []
    for k in range(n):
        devs.append((f'trunc@{k}', (lambda k: lambda b: b[:k])(k)))
    for v in (0x00, 0xFF):
        devs.append((f'append={v:02x}', (lambda v: lambda b: b + bytes([v]))(v)))
    for off, size, enc in seed.lens:
        actual = _read_len(d, off, size, enc)
        if actual is None:
            continue
        if enc == 'ea':
            mx = 0x7F if size == 1 else 0x7FFF
            vals = [v for v in dict.fromkeys((0, 1, actual - 1, actual + 1, mx)) if 0 <= v <= mx and v != actual]
        else:
            vals = _len_values(actual, size, enc)
        for v in vals:
            devs.append((f'len@{off}={v}', (lambda off, size, enc, v: lambda b: _write_len(b, off, size, enc, v) if off + size <= len(b) else b)(off, size, enc, v)))
        if enc == 'ea' and size == 1:
            # the EA bit itself: a one-octet length read as the first octet of a two-octet length
            devs.append((f'len@{off}:ea0', (lambda off: lambda b: b[:off] + bytes([b[off] & 0xFE]) + b[off + 1 :] if off < len(b) else b)(off)))
    for k in range(n):
        for v in (0x00, 0xFF):
            if d[k] != v:
                devs.append((f'byte@{k}={v:02x}', (lambda k, v: lambda b: b[:k] + bytes([v]) + b[k + 1 :] if k < len(b) else b)(k, v)))
    if with_opcode and seed.op is not None and seed.op < n:
        o = seed.op
        for v in range(256):
            if v != d[o] and v not in (0x00, 0xFF):
                devs.append((f'op@{o}={v:02x}', (lambda o, v: lambda b: b[:o] + bytes([v]) + b[o + 1 :] if o < len(b) else b)(o, v)))
    return devs


def mutants_of(seed: Seed, k: int, fix=None) -> Iterable[tuple]:
    """The seed itself, every single deviation, and (k == 2) every pair of deviations excluding the
    256-value opcode sweep.  `fix` (optional) repairs a checksum after mutation; both the raw and the
    repaired variant are produced when they differ."""
    seen = set()

    def emit(label, data):
        if data in seen:
            return
        seen.add(data)
        yield (f'{seed.name}|{label}', seed.chan, data)

    yield from emit('seed', seed.data)
    d1 = deviations(seed)
    for lab, f in d1:
        m = f(seed.data)
        yield from emit(lab, m)
        if fix is not None:
            yield from emit(lab + '|fix', fix(m))
    if k >= 2:
        d2 = [x for x in d1 if not x[0].startswith('op@')]
        for i, (la, fa) in enumerate(d2):
            ma = fa(seed.data)
            for lb, fb in d2[i + 1 :]:
                # apply the later-position deviation first so truncation does not hide it
                m = fb(ma)
                yield from emit(f'{la}+{lb}', m)
                if fix is not None:
                    yield from emit(f'{la}+{lb}|fix', fix(m))


BOUNDARY_BYTES = (0x00, 0x01, 0x02, 0x03, 0x04, 0x07, 0x08, 0x0F, 0x10, 0x11, 0x1F, 0x20, 0x3F, 0x40, 0x7F, 0x80, 0x81, 0xC0, 0xEF, 0xF0, 0xFE, 0xFF)


def short_strings(chan: str, full2: bool) -> Iterable[tuple]:
    """All byte strings of length 0, 1, 2 (full2) or length 0, 1 and length 2 with the second byte in a
    boundary set (quick)."""
    yield ('short|', chan, b'')
    for a in range(256):
        yield (f'short|{a:02x}', chan, bytes([a]))
    seconds = range(256) if full2 else BOUNDARY_BYTES
    for a in range(256):
        for b in seconds:
            yield (f'short|{a:02x}{b:02x}', chan, bytes([a, b]))


# ---------------------------------------------------------------------------
# independent "is this a valid disconnect" decoders
# ---------------------------------------------------------------------------
def hci_is_disconnection_complete(pkt: bytes, handle: int) -> bool:
    """HCI Disconnection Complete event (Vol 4 Part E 7.7.5): 04 05 len status handle(2) reason with
    status 0 and the live handle.  Lenient on the parameter-length octet and on trailing octets: at this
    seam the packet is already framed, so a controller that says "handle H is disconnected" followed by
    junk has still said it."""
    return len(pkt) >= 7 and pkt[0] == 0x04 and pkt[1] == 0x05 and pkt[3] == 0x00 and (pkt[4] | (pkt[5] << 8)) & 0x0FFF == handle & 0x0FFF


def rfcomm_is_disconnect(frame: bytes, live_dlci: int) -> bool:
    """DISC (or DM) with a correct FCS addressed to the multiplexer or to the live DLC; SABM on DLCI 0
    does not disconnect.  (A frame whose length field disagrees with its size is not well-formed.)"""
    d = rfcomm_decode(frame)
    if d is None:
        return False
    ftype, dlci, pf, fcs_ok, len_ok = d
    return fcs_ok and ftype in (DISC, DM) and dlci in (0, live_dlci)


def l2cap_sig_is_disconnect(pdu: bytes, cids: Iterable[int]) -> bool:
    """A well-formed Disconnection Request naming one of the victim's open channels as destination."""
    if len(pdu) != 8 or pdu[0] != 0x06 or pdu[2:4] != b'\x04\x00':
        return False
    return (pdu[4] | (pdu[5] << 8)) in set(cids)
