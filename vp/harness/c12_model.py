"""C12 reference model: what a GATT client must see of a database.

Everything here is written from the Core specification (Vol 3 Part F "ATT", Part G
"GATT") and from the property statement, in plain Python (ints, bytes, lists, dicts).
It imports nothing from bumble.

Database spec (JSON-able):
  db      = [service, ...]                      in construction order
  service = {'u': [width, n], 'p': 1|0 (primary), 'inc': [index of an earlier service, ...],
             'reg': 1|0 (0: never passed to add_service itself, only reachable as an included service),
             'ch': [char, ...]}
  char    = {'u': [width, n], 'pr': properties byte, 'vl': value length, 'dyn': 0|1, 'ds': [desc, ...]}
  desc    = {'u': [width, n] | 'cccd', 'vl': value length}
  width   = 16 | 32 | 128 | 'b128' (a 128-bit UUID that lies in the Bluetooth base range)

The model turns a spec into the *sequence of attributes* (rows) in the order the
server is given them, and derives groups from that sequence with the rule of Part G
3.1 / 3.3: a service definition ends before the next service declaration, a
characteristic definition before the next characteristic or service declaration.
Handles are taken from the server (they are the server's choice); everything else is
computed here.
"""
from __future__ import annotations

import struct

# Bluetooth Base UUID 00000000-0000-1000-8000-00805F9B34FB, little-endian, without the
# 32 most significant bits.
BASE_TAIL_LE = bytes.fromhex('00001000800000805F9B34FB')[::-1]

T_PRIMARY = 0x2800
T_SECONDARY = 0x2801
T_INCLUDE = 0x2802
T_CHARACTERISTIC = 0x2803
T_CCCD = 0x2902

P_READ = 0x02
P_WNR = 0x04
P_WRITE = 0x08
P_NOTIFY = 0x10
P_INDICATE = 0x20

OP_ERROR = 0x01
OP_NOTIFICATION = 0x1B
OP_INDICATION = 0x1D
OP_CONFIRMATION = 0x1E


def h16(v: int) -> bytes:
    return struct.pack('<H', v & 0xFFFF)


def pattern(length: int, salt: int) -> bytes:
    """Deterministic value bytes; different salts differ in the first byte and in step."""
    return bytes(((salt * 37 + i * 11 + (i >> 8) * 5 + 1) & 0xFF) for i in range(length))


# ---------------------------------------------------------------------------
# UUIDs
# ---------------------------------------------------------------------------
def uuid_raw(width, n: int) -> bytes:
    """The UUID as its owner writes it (2, 4 or 16 bytes little-endian)."""
    if width == 16:
        return struct.pack('<H', 0xA000 + n)
    if width == 32:
        return struct.pack('<I', 0xB0010000 + n)
    if width == 128:
        return bytes((0x31 + 17 * n + 7 * i) & 0xFF for i in range(16))
    if width == 'b128':
        return BASE_TAIL_LE + struct.pack('<H', 0xA800 + n) + b'\x00\x00'
    raise ValueError(width)


def widen(raw: bytes) -> bytes:
    """128-bit value of a 16/32/128-bit UUID (Part B 2.5.1)."""
    if len(raw) == 2:
        return BASE_TAIL_LE + raw + b'\x00\x00'
    if len(raw) == 4:
        return BASE_TAIL_LE + raw
    if len(raw) == 16:
        return raw
    raise ValueError(f'uuid of {len(raw)} bytes')


def wire(raw: bytes) -> bytes:
    """Form inside an ATT PDU: 32-bit UUIDs are sent as 128-bit (Part F 3.2.1)."""
    return raw if len(raw) in (2, 16) else widen(raw)


def width_name(width) -> str:
    return str(width)


# ---------------------------------------------------------------------------
# boundary value lengths
# ---------------------------------------------------------------------------
def value_lengths(mtu: int) -> list[int]:
    """{0, 1, MTU-4..MTU, k(MTU-1)-1, k(MTU-1), k(MTU-1)+1 for k=1..3, 511, 512} within 0..512."""
    s = {0, 1, 511, 512}
    s.update(range(mtu - 4, mtu + 1))
    for k in (1, 2, 3):
        s.update((k * (mtu - 1) - 1, k * (mtu - 1), k * (mtu - 1) + 1))
    return sorted(x for x in s if 0 <= x <= 512)


# ---------------------------------------------------------------------------
# the model
# ---------------------------------------------------------------------------
class Model:
    def __init__(self, spec, rows=None):
        self.spec = spec
        self.rows: list[dict] = []
        if rows is None:
            self._build()
        else:
            # rows described by the caller (database adopted from server objects): only the grouping
            # and the declaration values are computed here
            self.rows = rows
            for i, r in enumerate(rows):
                r['i'] = i
        self._group()

    # rows in registration order ------------------------------------------------
    def _build(self):
        spec, rows = self.spec, self.rows
        registered: list[int] = []
        salt = [0]

        def next_salt():
            salt[0] += 1
            return salt[0]

        def reg(si):
            s = spec[si]
            registered.append(si)
            raw = uuid_raw(*s['u'])
            rows.append({'kind': 'service', 'sidx': si, 'primary': bool(s['p']), 'type': h16(T_PRIMARY if s['p'] else T_SECONDARY),
                         'uuid': raw, 'w': s['u'][0], 'value': wire(raw)})
            for ti in s.get('inc', []):
                if ti not in registered:
                    # an included service that was never added is added at this point
                    reg(ti)
                rows.append({'kind': 'include', 'sidx': si, 'target': ti, 'type': h16(T_INCLUDE), 'w': spec[ti]['u'][0]})
            for ci, c in enumerate(s['ch']):
                craw = uuid_raw(*c['u'])
                rows.append({'kind': 'chr_decl', 'sidx': si, 'cidx': ci, 'type': h16(T_CHARACTERISTIC), 'uuid': craw, 'w': c['u'][0],
                             'props': c['pr']})
                rows.append({'kind': 'chr_value', 'sidx': si, 'cidx': ci, 'type': wire(craw), 'uuid': craw, 'w': c['u'][0],
                             'value': pattern(c['vl'], next_salt()), 'dyn': bool(c.get('dyn'))})
                has_cccd = False
                for di, d in enumerate(c.get('ds', [])):
                    if d['u'] == 'cccd':
                        has_cccd = True
                        rows.append({'kind': 'descriptor', 'sidx': si, 'cidx': ci, 'didx': di, 'type': h16(T_CCCD), 'w': 16,
                                     'value': b'\x00\x00', 'user_cccd': True})
                    else:
                        draw = uuid_raw(*d['u'])
                        rows.append({'kind': 'descriptor', 'sidx': si, 'cidx': ci, 'didx': di, 'type': wire(draw), 'w': d['u'][0],
                                     'value': pattern(d['vl'], next_salt())})
                if c['pr'] & (P_NOTIFY | P_INDICATE) and not has_cccd:
                    # GATT 3.3.3.3: such a characteristic has a Client Characteristic Configuration descriptor
                    rows.append({'kind': 'cccd', 'sidx': si, 'cidx': ci, 'type': h16(T_CCCD), 'w': 16, 'value': b'\x00\x00'})

        for si, s in enumerate(spec):
            if s.get('reg', 1) and si not in registered:
                reg(si)
        for i, r in enumerate(rows):
            r['i'] = i
            r['handle'] = i + 1  # provisional; bind() replaces it with the server's

    def bind(self, handles: list[int]):
        if len(handles) != len(self.rows):
            raise ValueError(f'{len(handles)} server attributes, model has {len(self.rows)}')
        for r, h in zip(self.rows, handles):
            r['handle'] = h
        self._group()

    # grouping by the specification rule ---------------------------------------------
    def _group(self):
        rows = self.rows
        n = len(rows)
        self.services = []
        i = 0
        # anything before the first service declaration belongs to no service (cannot happen with this grammar)
        while i < n:
            assert rows[i]['kind'] == 'service', rows[i]
            j = i + 1
            while j < n and rows[j]['kind'] != 'service':
                j += 1
            svc = {'row': rows[i], 'handle': rows[i]['handle'], 'end': rows[j - 1]['handle'], 'uuid': rows[i]['uuid'],
                   'primary': rows[i]['primary'], 'w': rows[i]['w'], 'sidx': rows[i]['sidx'], 'includes': [], 'chars': []}
            k = i + 1
            while k < j:
                r = rows[k]
                if r['kind'] == 'include':
                    svc['includes'].append(r)
                    k += 1
                elif r['kind'] == 'chr_decl':
                    m = k + 1
                    while m < j and rows[m]['kind'] != 'chr_decl':
                        m += 1
                    vrow = rows[k + 1]
                    svc['chars'].append({'decl': r, 'value': vrow, 'handle': vrow['handle'], 'end': rows[m - 1]['handle'],
                                         'uuid': r['uuid'], 'w': r['w'], 'props': r['props'],
                                         'descs': [rows[x] for x in range(k + 2, m)]})
                    k = m
                else:  # pragma: no cover - grammar never produces this
                    k += 1
            self.services.append(svc)
            i = j
        by_sidx = {s['sidx']: s for s in self.services}
        for r in rows:
            if r['kind'] == 'include':
                t = by_sidx[r['target']]
                r['inc_start'], r['inc_end'], r['inc_uuid'] = t['handle'], t['end'], t['uuid']
                # Part G 3.2: the service UUID is present only when it is a 16-bit Bluetooth UUID
                r['value'] = h16(t['handle']) + h16(t['end']) + (t['uuid'] if len(t['uuid']) == 2 else b'')
            elif r['kind'] == 'chr_decl':
                r['value'] = bytes([r['props']]) + h16(rows[r['i'] + 1]['handle']) + wire(r['uuid'])
        self.by_handle = {r['handle']: r for r in rows}

    # expected results of the client procedures -----------------------------------------
    def exp_services(self):
        """Discover All Primary Services: (handle, end, uuid128)."""
        return [(s['handle'], s['end'], widen(s['uuid'])) for s in self.services if s['primary']]

    def exp_service_by_uuid(self, raw: bytes):
        """Discover Primary Service by Service UUID: the value is compared as sent."""
        return [(s['handle'], s['end']) for s in self.services if s['primary'] and wire(s['uuid']) == wire(raw)]

    def exp_includes(self, svc):
        return [(r['inc_start'], r['inc_end'], widen(r['inc_uuid'])) for r in svc['includes']]

    def exp_chars(self, svc):
        return [(c['handle'], c['end'], widen(c['uuid']), c['props']) for c in svc['chars']]

    def exp_descs(self, char):
        return [(r['handle'], widen(r['type'])) for r in char['descs']]

    def exp_attributes(self):
        return [(r['handle'], widen(r['type'])) for r in self.rows]

    def service_at(self, handle):
        for s in self.services:
            if s['handle'] == handle:
                return s
        return None

    def width_at(self, handle):
        r = self.by_handle.get(handle)
        return width_name(r['w']) if r else 'none'

    def autoreg(self) -> bool:
        return any(not s.get('reg', 1) for s in (self.spec or []))


# ---------------------------------------------------------------------------
# comparison of handle-keyed result lists
# ---------------------------------------------------------------------------
def compare(expected: list[tuple], observed: list[tuple], fields: list[str]):
    """-> list of (problem, handle, detail); problem in missing / extra / duplicate / order / <field name>.
    Items are tuples whose first element is the handle that identifies them."""
    out = []
    eh = [t[0] for t in expected]
    oh = [t[0] for t in observed]
    seen = set()
    for h in oh:
        if h in seen:
            out.append(('duplicate', h, f'handle 0x{h:04X} reported twice'))
        seen.add(h)
    eb = {t[0]: t for t in expected}
    ob = {}
    for t in observed:
        ob.setdefault(t[0], t)
    for h in eh:
        if h not in ob:
            out.append(('missing', h, f'0x{h:04X} not reported'))
    for h in oh:
        if h not in eb:
            out.append(('extra', h, f'0x{h:04X} reported but not in the database: {fmt(ob[h])}'))
    for h in eh:
        if h in ob and ob[h] != eb[h]:
            for name, a, b in zip(fields[1:], eb[h][1:], ob[h][1:]):
                if a != b:
                    out.append((name, h, f'0x{h:04X} {name}: expected {fmt(a)}, client has {fmt(b)}'))
    if not out and eh != oh:
        out.append(('order', oh[0] if oh else 0, f'order differs: expected {eh}, got {oh}'))
    return out


def fmt(x):
    if isinstance(x, (bytes, bytearray)):
        return bytes(x).hex()
    if isinstance(x, tuple):
        return '(' + ', '.join(fmt(y) for y in x) + ')'
    if isinstance(x, int):
        return f'0x{x:X}'
    return repr(x)


# ---------------------------------------------------------------------------
# adversarial responses (termination clause)
# ---------------------------------------------------------------------------
# response families: what the request is answered with
#   'group'  Read By Group Type Response 0x11: length, (handle, end, uuid16)*
#   'fbtv'   Find By Type Value Response 0x07: (handle, end)*
#   'inc'    Read By Type Response 0x09 carrying include declarations: length 8, (handle, start, end, uuid16)*
#   'chr'    Read By Type Response 0x09 carrying characteristic declarations: length 7, (handle, props, vhandle, uuid16)*
#   'info'   Find Information Response 0x05: format 1, (handle, uuid16)*
FAMILY_REQ = {'group': 0x10, 'fbtv': 0x06, 'inc': 0x08, 'chr': 0x08, 'info': 0x04}
ITEMS = ['prog', 'two', 'empty', 'same', 'back', 'endffff', 'endlt', 'wronglen', 'len0', 'err_other', 'err_nf', 'err_wrongreq',
         'silent', 'wrongop']


def _entries_bytes(family, entries):
    out = b''
    for h, e in entries:
        h &= 0xFFFF
        e &= 0xFFFF
        if family == 'group':
            out += h16(h) + h16(e) + h16(0xA000)
        elif family == 'fbtv':
            out += h16(h) + h16(e)
        elif family == 'inc':
            out += h16(h) + h16(0x0100 + (h & 0xFF)) + h16(0x0100 + (h & 0xFF)) + h16(0xA000)
        elif family == 'chr':
            out += h16(h) + bytes([P_READ]) + h16(h + 1) + h16(0xA001)
        elif family == 'info':
            out += h16(h) + h16(0x2901)
    return out


def _wrap(family, body: bytes) -> bytes:
    if family == 'group':
        return bytes([0x11, 6]) + body
    if family == 'fbtv':
        return bytes([0x07]) + body
    if family == 'inc':
        return bytes([0x09, 8]) + body
    if family == 'chr':
        return bytes([0x09, 7]) + body
    if family == 'info':
        return bytes([0x05, 1]) + body
    raise ValueError(family)


def adversarial_response(family: str, item: str, req: bytes, step: int):
    """The bytes the scripted server sends for `item` in reply to request `req`
    (None = nothing).  S and E are the starting / ending handles of the request."""
    op = req[0]
    S, E = struct.unpack_from('<HH', req, 1)
    grouped = family in ('group', 'fbtv')
    if item == 'prog':
        if grouped:
            ent = [(S, min(S + step - 1, 0xFFFF))]
        else:
            ent = [(min(S + step - 1, E), 0)]
        return _wrap(family, _entries_bytes(family, ent))
    if item == 'two':
        half = max(1, step // 2)
        if grouped:
            ent = [(S, S + half - 1), (S + half, min(S + 2 * half - 1, 0xFFFF))]
        else:
            ent = [(min(S + half - 1, E), 0), (min(S + 2 * half - 1, E), 0)]
        return _wrap(family, _entries_bytes(family, ent))
    if item == 'empty':
        return _wrap(family, b'')
    if item == 'same':
        return _wrap(family, _entries_bytes(family, [(S - 1, S - 1)]))
    if item == 'back':
        return _wrap(family, _entries_bytes(family, [(1, 1)]))
    if item == 'endffff':
        return _wrap(family, _entries_bytes(family, [(S, 0xFFFF)] if grouped else [(0xFFFF, 0)]))
    if item == 'endlt':
        # grouped: end below start; plain lists: two entries in descending order
        return _wrap(family, _entries_bytes(family, [(S, S - 1)] if grouped else [(min(S + step, E), 0), (min(S + step - 1, E), 0)]))
    if item == 'wronglen':
        body = _entries_bytes(family, [(S, S)])
        if family == 'group':
            return bytes([0x11, 5]) + body  # length says 5, entries are 6 bytes
        if family == 'fbtv':
            return bytes([0x07]) + body[:3]  # not a multiple of 4
        if family in ('inc', 'chr'):
            return bytes([0x09, 1]) + body  # length 1: shorter than a handle
        return bytes([0x05, 7]) + body  # undefined format
    if item == 'len0':
        body = _entries_bytes(family, [(S, S)])
        if family == 'group':
            return bytes([0x11, 0]) + body
        if family == 'fbtv':
            # no length field in this PDU: one entry followed by trailing garbage
            return bytes([0x07]) + _entries_bytes(family, [(S, min(S + step - 1, 0xFFFF))]) + b'\x01'
        if family in ('inc', 'chr'):
            return bytes([0x09, 0]) + body
        return bytes([0x05, 0]) + body
    if item == 'err_other':
        return bytes([OP_ERROR, op]) + h16(S) + bytes([0x0E])  # Unlikely Error
    if item == 'err_nf':
        return bytes([OP_ERROR, op]) + h16(S) + bytes([0x0A])  # Attribute Not Found
    if item == 'err_wrongreq':
        return bytes([OP_ERROR, 0x0A]) + h16(S) + bytes([0x0E])  # names a Read Request
    if item == 'silent':
        return None
    if item == 'wrongop':
        return bytes([0x0B, 0x00])  # a Read Response
    raise ValueError(item)
