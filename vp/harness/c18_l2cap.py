"""C18 / l2cap: ERTM enhanced control fields (exhaustive), basic L2CAP_PDU framing
(with and without FCS), PSM variable-length encoding, every registered signalling
frame class, unknown signalling codes."""
from __future__ import annotations

import struct

from . import c18_common as cm
from .c18_common import Adapter, Rec, Slot


# ---------------------------------------------------------------------------
# reference encodings (Core spec Vol 3 Part A 3.3.2, Enhanced Control Field)
#   I-frame : bit0=0, TxSeq bits1-6, F bit7 | ReqSeq bits8-13, SAR bits14-15
#   S-frame : bit0=1, S bits2-3, P bit4, F bit7 | ReqSeq bits8-13
# ---------------------------------------------------------------------------
def ref_iframe(tx_seq, req_seq, sar, final) -> bytes:
    v = (tx_seq << 1) | (final << 7) | (req_seq << 8) | (sar << 14)
    return v.to_bytes(2, 'little')


def ref_sframe(function, poll, final, req_seq) -> bytes:
    v = 1 | (function << 2) | (poll << 4) | (final << 7) | (req_seq << 8)
    return v.to_bytes(2, 'little')


def ref_crc16(data: bytes) -> int:
    # CRC-16 g(D)=D^16+D^15+D^2+1, LFSR initialised to 0, LSB first (Part A 3.3.5)
    reg = 0
    for byte in data:
        for bit in range(8):
            inb = (byte >> bit) & 1
            fb = (reg & 1) ^ inb
            reg >>= 1
            if fb:
                reg ^= 0xA001
    return reg


def check_control_fields(rec: Rec):
    from bumble import l2cap

    st = rec.st
    # ---- I-frames: exhaustive 64*64*4*2
    cases, failing, first = [], [], {}
    for tx in range(64):
        for rq in range(64):
            for sar in range(4):
                for fin in (0, 1):
                    c = {'tx_seq': tx, 'req_seq': rq, 'sar': sar, 'final': fin}
                    msg = one_control(l2cap, 'I', c)
                    cases.append(c)
                    failing.append(msg is not None)
                    if msg and 'm' not in first:
                        first['m'], first['c'] = msg, c
                    if msg is None:
                        rec.ok(('I', tx, rq, sar, fin))
                    else:
                        st.case(('I', tx, rq, sar, fin))
    report_control(rec, 'InformationEnhancedControlField', 'I', cases, failing, first)
    st.count('iframe_values', len(cases))
    # ---- S-frames: exhaustive 4*2*2*64
    cases, failing, first = [], [], {}
    for fn in range(4):
        for poll in (0, 1):
            for fin in (0, 1):
                for rq in range(64):
                    c = {'supervision_function': fn, 'poll': poll, 'final': fin, 'req_seq': rq}
                    msg = one_control(l2cap, 'S', c)
                    cases.append(c)
                    failing.append(msg is not None)
                    if msg and 'm' not in first:
                        first['m'], first['c'] = msg, c
                    if msg is None:
                        rec.ok(('S', fn, poll, fin, rq))
                    else:
                        st.case(('S', fn, poll, fin, rq))
    report_control(rec, 'SupervisoryEnhancedControlField', 'S', cases, failing, first)
    st.count('sframe_values', len(cases))
    st.samples.append({'control_fields': 'all 32768 I-frame and 1024 S-frame enhanced control field values'})


def one_control(l2cap, kind: str, c: dict) -> str | None:
    if kind == 'I':
        ref = ref_iframe(c['tx_seq'], c['req_seq'], c['sar'], c['final'])
        cls = l2cap.InformationEnhancedControlField
    else:
        ref = ref_sframe(c['supervision_function'], c['poll'], c['final'], c['req_seq'])
        cls = l2cap.SupervisoryEnhancedControlField
    try:
        obj = cls(**c)
        wire = bytes(obj)
        back = l2cap.EnhancedControlField.from_bytes(wire)
    except Exception as e:
        return f'construct/serialise/parse raised {cm.exc_name(e)}: {e}'
    if type(back) is not cls:
        return f'construct->bytes {wire.hex()}->parse gives {type(back).__name__}'
    for f, v in c.items():
        if getattr(back, f) != v:
            return f'construct->bytes {wire.hex()}->parse: {f} {v}->{getattr(back, f)}'
    # well-formed bytes -> parse -> equal value -> rebuild -> same bytes
    try:
        p = l2cap.EnhancedControlField.from_bytes(ref)
    except Exception as e:
        return f'parsing {ref.hex()} raised {cm.exc_name(e)}'
    if type(p) is not cls:
        return f'bytes {ref.hex()} parse to {type(p).__name__}'
    for f, v in c.items():
        if getattr(p, f) != v:
            return f'bytes {ref.hex()}->parse: {f} should be {v}, is {getattr(p, f)}'
    again = bytes(cls(**{f: getattr(p, f) for f in c}))
    if again != ref:
        return f'bytes {ref.hex()}->parse->rebuild->bytes {again.hex()}'
    if wire != ref:
        return f'serialised {wire.hex()} but the spec encoding is {ref.hex()}'
    return None


def report_control(rec: Rec, unit: str, kind: str, cases, failing, first):
    n = sum(failing)
    if not n:
        return
    when = cm.explain(cases, failing)
    sig = {'unit': unit, 'failing_when': when if when is not None else 'no single-field characterisation'}
    rec.st.violation(
        'ertm_control_field',
        sig,
        f'{unit}: {n} of {len(cases)} values do not round-trip (exactly when {when}); first: {first["m"]}',
        {'kind': kind, 'fields': first['c']},
    )
    if rec.keep:
        rec.outcomes[cm.core.digest(('control', unit))] = cm.core.canon_json(sig)


# ---------------------------------------------------------------------------
def check_pdu(rec: Rec):
    from bumble import l2cap

    st = rec.st
    for cid in rec.seq([0x0001, 0x0004, 0x0040, 0xFFFF]):
        for n in rec.seq([0, 1, 2, 255, 256, 65533, 65535]):
            payload = rec.fill(n, cid)
            key = ('pdu', cid, n)
            case = {'unit': 'pdu', 'cid': cid, 'n': n}
            ref = struct.pack('<HH', n, cid) + payload
            try:
                wire = bytes(l2cap.L2CAP_PDU(cid, payload))
                back = l2cap.L2CAP_PDU.from_bytes(ref)
                again = bytes(l2cap.L2CAP_PDU(back.cid, back.payload))
            except Exception as e:
                rec.bad(key, 'l2cap_pdu', {'unit': 'L2CAP_PDU', 'how': f'exception:{cm.exc_name(e)}', 'len': lenclass(n)}, f'L2CAP_PDU cid={cid} len={n}: {e}', case)
                continue
            if wire != ref or back.cid != cid or back.payload != payload or again != ref:
                rec.bad(key, 'l2cap_pdu', {'unit': 'L2CAP_PDU', 'how': 'mismatch', 'len': lenclass(n)}, f'L2CAP_PDU cid={cid} len={n}: wire {cm.short(wire)} ref {cm.short(ref)}', case)
                continue
            rec.ok(key)
            if n > 65533:
                continue
            # with FCS: header length counts the FCS, FCS covers header+payload
            keyf = ('pdu_fcs', cid, n)
            body = struct.pack('<HH', n + 2, cid) + payload
            reff = body + struct.pack('<H', ref_crc16(body))
            try:
                wiref = l2cap.L2CAP_PDU(cid, payload).to_bytes(with_fcs=True)
                backf = l2cap.L2CAP_PDU.from_bytes(reff)
            except Exception as e:
                rec.bad(keyf, 'l2cap_pdu', {'unit': 'L2CAP_PDU+FCS', 'how': f'exception:{cm.exc_name(e)}', 'len': lenclass(n)}, f'with_fcs cid={cid} len={n}: {e}', case)
                continue
            if wiref != reff or backf.cid != cid or backf.payload != reff[4:] or bytes(backf) != reff:
                rec.bad(keyf, 'l2cap_pdu', {'unit': 'L2CAP_PDU+FCS', 'how': 'mismatch', 'len': lenclass(n)}, f'with_fcs cid={cid} len={n}: wire {cm.short(wiref)} ref {cm.short(reff)}', case)
                continue
            rec.ok(keyf)


def lenclass(n: int) -> str:
    return str(n) if n in (0, 1, 255, 256) else ('>=65533' if n >= 65533 else 'other')


# ---------------------------------------------------------------------------
# PSM: at least 2 octets, every octet but the last has LSB=1, last has LSB=0
# (Part A 4.2).  Reference encoder is little-endian minimal length.
# ---------------------------------------------------------------------------
PSMS = [0x0001, 0x0003, 0x0019, 0x00FF, 0x1001, 0xFEFF, 0x020101, 0xFEFFFF, 0x02010101, 0xFEFFFFFF]


def psm_ok(psm: int) -> bool:
    b = ref_psm(psm)
    return all(x & 1 for x in b[:-1]) and not (b[-1] & 1)


def ref_psm(psm: int) -> bytes:
    n = max(2, (psm.bit_length() + 7) // 8)
    return psm.to_bytes(n, 'little')


def psm_candidates():
    out = []
    for p in PSMS:
        if psm_ok(p) and all(p != q for _, q, _ in out):
            out.append((f'psm{len(ref_psm(p))}B:{hex(p)}', p, ref_psm(p)))
    return out


def cid_list_candidates():
    lists = [[], [0x0040], [0x0040, 0x0041], [0xFFFF, 0x0000, 0x0100, 0x00FF, 0x8000]]
    return [(f'cids{len(l)}', l, b''.join(struct.pack('<H', c) for c in l)) for l in lists]


class L2capAdapter(Adapter):
    proto = 'l2cap'

    def classes(self):
        from bumble import l2cap

        return sorted(l2cap.L2CAP_Control_Frame.classes.items(), key=lambda kv: int(kv[0]))

    def pre_slots(self, key, cls, rec):
        return [Slot('identifier', [(hex(v), {'identifier': v}, None) for v in (1, 0, 0xFF)])]

    def custom(self, cls, name, spec, rec):
        if name == 'psm' and isinstance(spec, dict):
            return psm_candidates()
        if name in ('source_cid', 'destination_cid') and isinstance(spec, dict) and 'size' not in spec and cm.enum_spec_info(spec) is None:
            return cid_list_candidates()
        return None

    def decode(self, key, cls, data):
        from bumble import l2cap

        return l2cap.L2CAP_Control_Frame.from_bytes(data)

    def header_ref(self, key, cls, values, body):
        return struct.pack('<BBH', int(key), values['identifier'], len(body))


def check_signalling(rec: Rec, k: int):
    cm.run_adapter(L2capAdapter(), rec, k)
    check_unknown_codes(rec)


def check_unknown_codes(rec: Rec):
    from bumble import l2cap

    known = {int(c) for c in l2cap.L2CAP_Control_Frame.classes}
    unknown = [c for c in (0x00, 0x0C, 0x0D, 0x1B, 0x7F, 0x80, 0xFF) if c not in known]
    for code in rec.seq(unknown):
        for n in (0, 1, 255):
            pl = rec.fill(n, code)
            data = struct.pack('<BBH', code, 7, n) + pl
            key = ('unknown', code, n)
            case = {'unit': 'unknown', 'code': code, 'n': n}
            try:
                f = l2cap.L2CAP_Control_Frame.from_bytes(data)
                out = bytes(f)
            except Exception as e:
                rec.bad(key, 'unknown_code', {'unit': 'L2CAP_Control_Frame', 'how': f'exception:{cm.exc_name(e)}'}, f'unknown signalling code {code:#x}: {e}', case)
                continue
            if out != data or f.identifier != 7 or int(f.code) != code or f.payload != pl:
                rec.bad(key, 'unknown_code', {'unit': 'L2CAP_Control_Frame', 'how': 'bytes_differ'}, f'unknown signalling code {code:#x}: {data.hex()} -> {out.hex()}', case)
            else:
                rec.ok(key)


def check_psm_direct(rec: Rec):
    from bumble import l2cap

    for label, psm, ref in rec.seq(psm_candidates()):
        key = ('psm', psm)
        try:
            wire = l2cap.L2CAP_Connection_Request.serialize_psm(psm)
            off, back = l2cap.L2CAP_Connection_Request.parse_psm(b'\xEE' + ref + b'\x40\x00', 1)
        except Exception as e:
            rec.bad(key, 'psm', {'unit': 'psm', 'how': f'exception:{cm.exc_name(e)}', 'octets': len(ref)}, f'psm {psm:#x}: {e}', {'unit': 'psm', 'psm': psm})
            continue
        if wire != ref or back != psm or off != 1 + len(ref):
            rec.bad(key, 'psm', {'unit': 'psm', 'how': 'mismatch', 'octets': len(ref)}, f'psm {psm:#x}: serialised {wire.hex()} ref {ref.hex()}, parsed {back:#x} end {off}', {'unit': 'psm', 'psm': psm})
        else:
            rec.ok(key)


def check_config_options(rec: Rec):
    """Configuration options (Part A 5): [type, length, value] repeated."""
    from bumble import l2cap

    F = l2cap.L2CAP_Control_Frame
    opts = [(0x01, b'\x00\x04'), (0x02, b'\xff\xff'), (0x03, bytes(22)), (0x04, bytes(range(9))), (0x05, b'\x01'), (0x06, bytes(16)), (0x07, b'\x3f\x00'), (0x81, b''), (0x7F, rec.fill(255, 7))]
    lists = [[]] + [[o] for o in opts] + [[a, b] for a in opts[:5] for b in opts[:5]] + [opts]
    for lst in rec.seq(lists):
        ref = b''.join(bytes([t, len(v)]) + v for t, v in lst)
        key = ('cfgopt', tuple(t for t, _ in lst), len(ref))
        try:
            wire = F.encode_configuration_options(lst)
            back = F.decode_configuration_options(ref)
            ok = wire == ref and [(int(t), bytes(v)) for t, v in back] == lst and F.encode_configuration_options(back) == ref
        except Exception as e:
            ok = False
        if ok:
            rec.ok(key)
        else:
            rec.bad(key, 'l2cap_config_options', {'unit': 'configuration_options', 'options': len(lst)}, f'configuration options {[hex(t) for t, _ in lst]} do not round-trip', {'unit': 'cfgopt'})


def run(rec: Rec, k: int):
    check_control_fields(rec)
    check_pdu(rec)
    check_psm_direct(rec)
    check_config_options(rec)
    check_signalling(rec, k)
