"""C12 harness: real bumble GATT server + real bumble GATT clients over the VLoop link.

Only bumble's public constructors / methods are used to build things
(`gatt.Service`, `gatt.Characteristic`, `gatt.Descriptor`, `Server.add_service`,
`Server.register_eatt`, `Client.connect_eatt`, `Client.request_mtu`, ...).  Observation
taps are instance-attribute wrappers (bumble is not edited):
  * `Device.send_l2cap_pdu` of a device  -> every ATT PDU it transmits on the fixed channel
  * `LeCreditBasedChannel.write` of an EATT channel -> every ATT PDU it transmits on that bearer
"""
from __future__ import annotations

from . import c12_model as M
from .devices import World

ATT_CID = 0x0004
EATT_PSM = 0x0027


class Cell:
    def __init__(self, data: bytes):
        self.data = data
        self.reads = 0
        self.writes = 0


class GattWorld:
    """with GattWorld(n_devices, server_index) as g: ...

    The server device has no default GAP/GATT services: its database is exactly what
    `set_database(spec)` adds."""

    def __init__(self, n=2, server=1, seed=0, eatt=False, defaults=False):
        self.n, self.sidx, self.seed, self.want_eatt = n, server, seed, eatt
        self.defaults = defaults  # keep bumble's default GAP + GATT services in front of the enumerated database
        self.world = None
        self.objs = []  # real attribute objects, row order
        self.cells = {}  # row index -> Cell
        self.model = None
        self.taps = {}

    def __enter__(self):
        from bumble.device import DeviceConfiguration

        cfg = DeviceConfiguration()
        cfg.gap_service_enabled = self.defaults
        cfg.gatt_service_enabled = self.defaults
        self.world = World(self.n, seed=self.seed, device_kwargs={self.sidx: {'config': cfg}})
        self.world.__enter__()
        try:
            self.loop = self.world.loop
            self.world.power_on()
            self.server_dev = self.world.devices[self.sidx]
            self.server = self.server_dev.gatt_server
            if self.server.attributes and not self.defaults:
                raise RuntimeError('server database not empty at start')
            if self.want_eatt:
                self.server.register_eatt()
        except BaseException:
            self.world.__exit__(None, None, None)
            raise
        return self

    def __exit__(self, *a):
        return self.world.__exit__(*a)

    # -- database ----------------------------------------------------------------
    def set_database(self, spec) -> M.Model:
        from bumble import att, gatt
        from bumble.core import UUID

        RW = att.Attribute.READABLE | att.Attribute.WRITEABLE
        model = M.Model(spec)
        # values per (sidx, cidx[, didx]) from the model rows so that both sides start equal
        val = {}
        for r in model.rows:
            if r['kind'] == 'chr_value':
                val[(r['sidx'], r['cidx'])] = r
            elif r['kind'] == 'descriptor':
                val[(r['sidx'], r['cidx'], r['didx'])] = r
        objs = {}
        cells_by_key = {}
        cell_of_obj = {}
        pending_cells = []

        def mk(si):
            if si in objs:
                return objs[si]
            s = spec[si]
            inc = [mk(t) for t in s.get('inc', [])]
            chars = []
            for ci, c in enumerate(s['ch']):
                descs = []
                for di, d in enumerate(c.get('ds', [])):
                    row = val[(si, ci, di)]
                    dtype = UUID.from_16_bits(M.T_CCCD) if d['u'] == 'cccd' else UUID.from_bytes(M.uuid_raw(*d['u']))
                    descs.append(gatt.Descriptor(dtype, RW, row['value']))
                row = val[(si, ci)]
                if c.get('dyn'):
                    cell = Cell(row['value'])
                    cells_by_key[(si, ci)] = cell
                    pending_cells.append(cell)

                    def rd(_connection, cell=cell):
                        cell.reads += 1
                        return cell.data

                    def wr(_connection, value, cell=cell):
                        cell.writes += 1
                        cell.data = bytes(value)

                    value = gatt.CharacteristicValue(read=rd, write=wr)
                else:
                    value = row['value']
                chars.append(gatt.Characteristic(UUID.from_bytes(M.uuid_raw(*c['u'])), gatt.Characteristic.Properties(c['pr']), RW, value, descs))
                if c.get('dyn'):
                    cell_of_obj[id(chars[-1])] = pending_cells.pop()
            objs[si] = gatt.Service(UUID.from_bytes(M.uuid_raw(*s['u'])), chars, primary=bool(s['p']), included_services=inc)
            return objs[si]

        for si, s in enumerate(spec):
            mk(si)
        for si, s in enumerate(spec):
            if s.get('reg', 1) and objs[si] not in self.server.services:
                self.server.add_service(objs[si])
        attrs = list(self.server.attributes)
        self.objs = attrs
        if self.defaults or model.autoreg():
            # The order of the attributes is then not the harness's choice (default services come first; an
            # included service that was never added is placed by bumble): the reference adopts the order, kinds,
            # UUIDs and static values from the server's objects and computes grouping and declarations itself.
            model = self.adopt(spec)
        else:
            model.bind([a.handle for a in attrs])
        self.cells = {}
        for r, a in zip(model.rows, attrs):
            if id(a) in cell_of_obj:
                self.cells[r['i']] = cell_of_obj[id(a)]
        self.model = model
        return model

    def adopt(self, spec=None) -> M.Model:
        """Reference built from the Python objects the server database consists of (used when
        bumble's default services are present): kinds, UUIDs, properties and static values are
        read from the objects; order-derived grouping and declaration values are the model's."""
        from bumble import att, gatt

        rows = []
        sidx_of = {}
        for a in self.objs:
            if isinstance(a, gatt.Service):
                sidx_of[id(a)] = len(sidx_of)
        cur = None
        cidx = -1
        for a in self.objs:
            static = bytes(a.value) if isinstance(a.value, (bytes, bytearray)) else (b'' if a.value is None else None)
            if isinstance(a, gatt.Service):
                cur = sidx_of[id(a)]
                cidx = -1
                raw = bytes(a.uuid.uuid_bytes)
                rows.append({'kind': 'service', 'sidx': cur, 'primary': bool(a.primary), 'type': M.h16(M.T_PRIMARY if a.primary else M.T_SECONDARY),
                             'uuid': raw, 'w': len(raw) * 8, 'value': M.wire(raw), 'handle': a.handle})
            elif isinstance(a, gatt.IncludedServiceDeclaration):
                rows.append({'kind': 'include', 'sidx': cur, 'target': sidx_of[id(a.service)], 'type': M.h16(M.T_INCLUDE), 'w': len(a.service.uuid.uuid_bytes) * 8, 'handle': a.handle})
            elif isinstance(a, gatt.CharacteristicDeclaration):
                cidx += 1
                raw = bytes(a.characteristic.uuid.uuid_bytes)
                rows.append({'kind': 'chr_decl', 'sidx': cur, 'cidx': cidx, 'type': M.h16(M.T_CHARACTERISTIC), 'uuid': raw, 'w': len(raw) * 8,
                             'props': int(a.characteristic.properties), 'handle': a.handle})
            elif isinstance(a, gatt.Characteristic):
                raw = bytes(a.uuid.uuid_bytes)
                rows.append({'kind': 'chr_value', 'sidx': cur, 'cidx': cidx, 'type': M.wire(raw), 'uuid': raw, 'w': len(raw) * 8, 'value': static, 'handle': a.handle})
            else:
                raw = bytes(a.type.uuid_bytes)
                is_cccd = M.widen(raw) == M.widen(M.h16(M.T_CCCD)) and isinstance(a.value, att.AttributeValueV2)
                rows.append({'kind': 'cccd' if is_cccd else 'descriptor', 'sidx': cur, 'cidx': cidx, 'type': M.wire(raw), 'w': len(raw) * 8,
                             'value': b'\x00\x00' if is_cccd else static, 'handle': a.handle})
        return M.Model(spec, rows=rows)

    def layout_problems(self):
        """Row sequence of the model vs the attribute list the real server built
        (types by 128-bit value)."""
        out = []
        for r, a in zip(self.model.rows, self.objs):
            got = M.widen(bytes(a.type.uuid_bytes))
            if got != M.widen(r['type']):
                out.append(f'attribute #{r["i"]} handle 0x{a.handle:04X}: model says {r["kind"]} type {M.widen(r["type"]).hex()}, server has type {got.hex()}')
        return out

    def server_value(self, row) -> bytes:
        """Current stored value of a characteristic value / descriptor row on the server."""
        if row['i'] in self.cells:
            return self.cells[row['i']].data
        v = self.objs[row['i']].value
        if v is None:
            return b''
        return bytes(v) if isinstance(v, (bytes, bytearray)) else None  # None: computed by a function the harness does not own

    def set_server_value(self, row, data: bytes):
        if row['i'] in self.cells:
            self.cells[row['i']].data = data
        else:
            self.objs[row['i']].value = data
        row['value'] = data

    # -- links ---------------------------------------------------------------------
    def connect(self, client=0):
        return self.world.connect_le(client, self.sidx)

    def disconnect(self, conn):
        self.world.run(conn.disconnect())
        self.world.settle()

    def open_eatt(self, c_conn, s_conn, mtu):
        """Open one enhanced bearer from the client side; returns (client, server_channel)."""
        from bumble import l2cap
        from bumble.gatt_client import Client

        mgr = self.server_dev.l2cap_channel_manager
        before = set(mgr.le_coc_channels.get(s_conn.handle, {}).values())
        client = self.world.run(Client.connect_eatt(c_conn, l2cap.LeCreditBasedChannelSpec(psm=EATT_PSM, mtu=mtu)))
        self.world.settle()
        new = [c for c in mgr.le_coc_channels.get(s_conn.handle, {}).values() if c not in before]
        if len(new) != 1:
            raise RuntimeError(f'expected one new server EATT channel, got {len(new)}')
        return client, new[0]

    def open_eatt_many(self, c_conn, s_conn, mtu, count):
        """Open `count` enhanced bearers with ONE Client.connect_eatt call; returns (clients, server channels), the k-th
        server channel being the peer end of the k-th client's bearer."""
        from bumble import l2cap
        from bumble.gatt_client import Client

        mgr = self.server_dev.l2cap_channel_manager
        before = set(mgr.le_coc_channels.get(s_conn.handle, {}).values())
        clients = self.world.run(Client.connect_eatt(c_conn, l2cap.LeCreditBasedChannelSpec(psm=EATT_PSM, mtu=mtu), count))
        if not isinstance(clients, list):
            clients = [clients]
        self.world.settle()
        new = [c for c in mgr.le_coc_channels.get(s_conn.handle, {}).values() if c not in before]
        if len(new) != count or len(clients) != count:
            raise RuntimeError(f'expected {count} new server EATT channels and clients, got {len(new)} / {len(clients)}')
        by_peer_cid = {c.destination_cid: c for c in new}
        return clients, [by_peer_cid[cl.bearer.source_cid] for cl in clients]

    # -- taps ------------------------------------------------------------------------
    def tap_device(self, dev, fn):
        """fn(connection_handle, pdu) -> True to let the ATT PDU go out, False to hold it."""
        real = dev.send_l2cap_pdu

        def send_l2cap_pdu(connection_handle, cid, pdu):
            if cid == ATT_CID and not fn(connection_handle, bytes(pdu)):
                return
            real(connection_handle, cid, pdu)

        dev.send_l2cap_pdu = send_l2cap_pdu
        return real

    def tap_channel(self, channel, fn):
        real = channel.write

        def write(data):
            if not fn(bytes(data)):
                return
            real(data)

        channel.write = write
        return real
