"""C12 termination clause: a real bumble GATT client against a scripted adversarial
server.  The server device's ATT fixed channel (CID 4) handler is replaced with
`ChannelManager.register_fixed_channel` (public API); the adversary answers each
request according to a script of response kinds (c12_model.ITEMS), repeating the last
item forever.  The client under test is the real per-connection
`gatt_client.Client` of the other device, over the real link.
"""
from __future__ import annotations

import struct

from . import c12_model as M
from .c12_world import ATT_CID, GattWorld

# procedure -> (response family, bounded range or None)
PROCS = {
    'discover_services': ('group', None),
    'discover_service': ('fbtv', None),
    'discover_included_services': ('inc', (0x0010, 0x002F)),
    'discover_characteristics': ('chr', (0x0010, 0x002F)),
    'discover_descriptors': ('info', (0x0010, 0x002F)),
    'discover_attributes': ('info', None),
}
UNBOUNDED_STEP = 0x0800
LASSO_REPEATS = 300


class Adversary:
    def __init__(self, g: GattWorld):
        self.g = g
        self.client = None
        self.dev = g.server_dev
        self.dev.l2cap_channel_manager.register_fixed_channel(ATT_CID, self.on_pdu)
        self.reset('info', [], 1, 0)

    def reset(self, family, script, step, budget, lasso=True):
        self.family, self.script, self.step, self.budget, self.lasso = family, script, step, budget, lasso
        self.requests = 0
        self.used = 0  # script positions consumed (repeat phase counts once)
        self.stop = None
        self.last_req = None
        self.same_count = 0
        self.unexpected = []

    def on_pdu(self, connection_handle, pdu):
        pdu = bytes(pdu)
        if self.stop is not None or not self.script:
            return
        if not pdu or pdu[0] != M.FAMILY_REQ[self.family] or len(pdu) < 5:
            self.unexpected.append(pdu.hex())
            return
        self.requests += 1
        pos = min(self.requests - 1, len(self.script) - 1)
        self.used = max(self.used, pos + 1)
        if self.requests > self.budget:
            self.stop = 'budget'
            return
        if self.requests >= len(self.script):
            # repeat phase
            if pdu == self.last_req:
                self.same_count += 1
                if self.lasso and self.same_count >= LASSO_REPEATS:
                    self.stop = 'lasso'
                    return
            else:
                self.same_count = 0
            self.last_req = pdu
        rsp = M.adversarial_response(self.family, self.script[pos], pdu, self.step)
        if rsp is not None:
            self.dev.send_l2cap_pdu(connection_handle, ATT_CID, rsp)

    def call(self, proc):
        from bumble.gatt_client import CharacteristicProxy, ServiceProxy

        c = self.client
        rng = PROCS[proc][1]
        if proc == 'discover_services':
            return c.discover_services()
        if proc == 'discover_service':
            from bumble.core import UUID

            return c.discover_service(UUID.from_16_bits(0xA000))
        if proc == 'discover_attributes':
            return c.discover_attributes()
        from bumble.core import UUID

        if proc in ('discover_included_services', 'discover_characteristics'):
            sp = ServiceProxy(c, rng[0], rng[1], UUID.from_16_bits(0xA000), True)
            return c.discover_included_services(sp) if proc == 'discover_included_services' else c.discover_characteristics([], sp)
        if proc == 'discover_descriptors':
            cp = CharacteristicProxy(c, rng[0] - 1, rng[1], UUID.from_16_bits(0xA001), M.P_READ)
            return c.discover_descriptors(cp)
        raise ValueError(proc)

    def run(self, proc, script, budget, lasso=True, step=None):
        """-> dict(outcome, requests, used).  outcome: 'returned:<n>' | 'raised:<Type>' |
        'lasso' | 'budget' | 'hang'."""
        family, rng = PROCS[proc]
        if step is None:
            step = 1 if rng is not None else UNBOUNDED_STEP
        # a fresh connection (= a fresh Client object) per script: results cannot depend on earlier scripts
        c_conn, _s_conn = self.g.connect(0)
        self.client = c_conn.gatt_client
        self.reset(family, list(script), step, budget, lasso)
        loop = self.g.loop
        task = loop.create_task(self.call(proc))
        horizon = loop.time() + 400.0
        reached = loop.run_until(lambda: task.done() or self.stop is not None, horizon=horizon, max_steps=3_000_000)
        if task.done():
            if task.cancelled():
                outcome = 'raised:CancelledError'
            elif task.exception() is not None:
                outcome = 'raised:' + type(task.exception()).__name__
            else:
                r = task.result()
                outcome = f'returned:{len(r) if r is not None else None}'
        else:
            outcome = self.stop if self.stop is not None else 'hang'
            task.cancel()
            self.script = []
            loop.run_quiescent()
        # the client must be reusable for the next script: nothing pending
        self.script = []
        loop.run_quiescent()
        try:
            self.g.disconnect(c_conn)
        except Exception:  # noqa: BLE001
            pass
        loop.collect_exceptions()
        return {'outcome': outcome, 'requests': self.requests, 'used': self.used, 'reached': reached, 'unexpected': list(self.unexpected)}
