"""Independent RFCOMM wire decoder and monitor for C20.

Written from TS 07.10 / the Bluetooth RFCOMM specification, not from
bumble/rfcomm.py: nothing here imports bumble.  The monitor is fed the raw L2CAP
payloads of the RFCOMM channel at two seams per end (handed to L2CAP by that end
= `tx`, delivered by L2CAP to that end = `rx`) and derives, from frames alone:

  * the parameters each side announced in its PN (max frame size N1, initial
    credits k),
  * a credit ledger per (DLCI, sender): credits a sender can know about = k of
    the peer's PN + credit octets of frames already *delivered to the sender*;
    one credit is used by every UIH frame with a non-empty payload *sent by it*,
  * per (DLCI, direction) the byte stream carried,
  * which DLCIs are open (SABM/UA ... DISC/UA) and whether the multiplexer
    session is up.

Ends: 0 = the initiator of the multiplexer session (sent SABM on DLCI 0),
1 = the responder.
"""
from __future__ import annotations

SABM, UA, DM, DISC, UIH, UI = 0x2F, 0x63, 0x0F, 0x43, 0xEF, 0x03
TYPE_NAMES = {SABM: 'SABM', UA: 'UA', DM: 'DM', DISC: 'DISC', UIH: 'UIH', UI: 'UI'}
MCC_PN, MCC_MSC, MCC_TEST, MCC_FCON, MCC_FCOFF, MCC_RPN, MCC_RLS, MCC_NSC = 0x20, 0x38, 0x08, 0x28, 0x18, 0x24, 0x14, 0x04


def fcs(data: bytes) -> int:
    """TS 07.10 annex B: CRC-8, polynomial x^8+x^2+x+1, reflected (0xE0), preset
    0xFF, ones-complemented."""
    crc = 0xFF
    for b in data:
        crc ^= b
        for _ in range(8):
            crc = (crc >> 1) ^ 0xE0 if crc & 1 else crc >> 1
    return 0xFF - crc


class Frame:
    __slots__ = ('dlci', 'cr', 'type', 'pf', 'length', 'credits', 'payload', 'errors', 'size')

    def __repr__(self):
        c = f' credits={self.credits}' if self.credits is not None else ''
        return f'{TYPE_NAMES.get(self.type, hex(self.type))}(dlci={self.dlci} cr={self.cr} pf={self.pf} len={self.length}{c})'


def decode(pdu: bytes) -> Frame:
    """Decode one RFCOMM frame.  Never raises: problems are listed in .errors."""
    f = Frame()
    f.errors = []
    f.size = len(pdu)
    f.credits = None
    f.payload = b''
    f.length = 0
    if len(pdu) < 4:
        f.dlci = f.cr = f.pf = -1
        f.type = -1
        f.errors.append('short')
        return f
    addr, ctrl = pdu[0], pdu[1]
    if not addr & 1:
        f.errors.append('address_ea')
    f.cr = (addr >> 1) & 1
    f.dlci = addr >> 2
    f.pf = (ctrl >> 4) & 1
    f.type = ctrl & 0xEF
    if f.type not in TYPE_NAMES:
        f.errors.append('type')
    if pdu[2] & 1:
        f.length = pdu[2] >> 1
        pos = 3
    else:
        f.length = (pdu[2] >> 1) | (pdu[3] << 7)
        pos = 4
        if f.length < 128:
            f.errors.append('length_not_minimal')
    if f.type == UIH and f.pf == 1 and f.dlci != 0:
        if pos >= len(pdu) - 1:
            f.errors.append('credit_octet_missing')
        else:
            f.credits = pdu[pos]
            pos += 1
    if len(pdu) != pos + f.length + 1:
        f.errors.append(f'length_field({f.length})_vs_frame({len(pdu) - pos - 1})')
    f.payload = bytes(pdu[pos:-1])
    covered = pdu[0:2] if f.type == UIH else pdu[0 : (4 if not pdu[2] & 1 else 3)]
    if fcs(bytes(covered)) != pdu[-1]:
        f.errors.append('fcs')
    if f.type in (SABM, UA, DM, DISC) and f.length:
        f.errors.append('payload_on_control_frame')
    return f


class Mcc:
    __slots__ = ('type', 'cr', 'value', 'errors')


def decode_mcc(data: bytes) -> Mcc:
    m = Mcc()
    m.errors = []
    m.value = b''
    if len(data) < 2:
        m.type = -1
        m.cr = 0
        m.errors.append('mcc_short')
        return m
    if not data[0] & 1:
        m.errors.append('mcc_type_ea')
    m.cr = (data[0] >> 1) & 1
    m.type = data[0] >> 2
    n = 0
    shift = 0
    pos = 1
    while True:
        if pos >= len(data):
            m.errors.append('mcc_length_unterminated')
            break
        b = data[pos]
        pos += 1
        n |= (b >> 1) << shift
        shift += 7
        if b & 1:
            break
    m.value = bytes(data[pos:])
    if len(m.value) != n:
        m.errors.append(f'mcc_length({n})_vs_value({len(m.value)})')
    return m


def decode_pn(value: bytes):
    """-> dict(dlci, cl, priority, n1, k) or None"""
    if len(value) != 8:
        return None
    return {
        'dlci': value[0] & 0x3F,
        'cl': value[1] >> 4,
        'priority': value[2] & 0x3F,
        'n1': value[4] | (value[5] << 8),
        'k': value[7] & 0x07,
    }


class Dl:
    """Wire-derived view of one data link (one DLCI)."""

    def __init__(self, dlci):
        self.dlci = dlci
        self.pn = {}  # end -> pn dict announced by that end
        self.phase = 'negotiated'  # negotiated -> sabm -> open -> disc(by) -> closed
        self.disc_by = None
        self.credits = {}  # sender end -> credits it can know of
        self.sent = {0: bytearray(), 1: bytearray()}  # by sender end (tx seam)
        self.delivered = {0: bytearray(), 1: bytearray()}  # by sender end (rx seam of the other end)
        self.frames = {0: 0, 1: 0}  # data frames by sender
        self.credit_frames = {0: 0, 1: 0}
        self.empty_credit_frames = {0: 0, 1: 0}
        self.max_payload = {0: 0, 1: 0}
        self.min_credits = {0: None, 1: None}
        self.generation = 0


class Monitor:
    """Feed with tx(end, pdu) / rx(end, pdu).  `l2cap_mtu[end]` = the MTU that end
    asked for on the L2CAP channel (the largest PDU it accepts)."""

    def __init__(self, l2cap_mtu=(None, None)):
        self.l2cap_mtu = list(l2cap_mtu)
        self.viol = []  # (kind, detail dict, message)
        self.dls: dict[int, Dl] = {}
        self.closed_dls: list[Dl] = []
        self.mux = 'idle'  # idle -> sabm -> up -> disc -> down
        self.log = []  # compact frame log ('>0 SABM(...)')
        self.pending_tx = {0: [], 1: []}  # frames sent by end, not yet delivered to the other
        self.cr_anomalies = 0
        self.frames_total = 0
        self.pn_response_larger = 0
        self.frames_over_pn_response_n1 = 0  # counted, not a verdict (see c20.py ASSUMPTIONS)

    # -- helpers -----------------------------------------------------------
    def _v(self, kind, detail, msg):
        self.viol.append((kind, detail, msg))

    def dl(self, dlci) -> Dl | None:
        return self.dls.get(dlci)

    # -- the two seams -------------------------------------------------------
    def tx(self, end: int, pdu: bytes):
        pdu = bytes(pdu)
        f = decode(pdu)
        self.frames_total += 1
        if len(self.log) < 400:
            self.log.append(f'>{end} {f!r}')
        self.pending_tx[end].append(pdu)
        if f.errors:
            self._v('malformed_frame', {'errors': sorted(f.errors)[:2], 'type': TYPE_NAMES.get(f.type, '?')}, f'end {end} sent a malformed frame {f!r}: {f.errors}')
            return
        peer = 1 - end
        mtu = self.l2cap_mtu[peer]
        if mtu is not None and len(pdu) > mtu:
            self._v(
                'frame_exceeds_l2cap_mtu',
                {'type': TYPE_NAMES[f.type], 'with_credits': f.credits is not None, 'over_by': len(pdu) - mtu},
                f'end {end} sent a {len(pdu)}-byte RFCOMM frame {f!r}; the peer L2CAP MTU is {mtu}',
            )
        # C/R convention (counted, not a verdict): commands carry 1 from the initiator and 0 from the responder,
        # responses carry the C/R of the command they answer; UIH is always a command
        if f.type in (SABM, DISC, UIH) and f.cr != (1 if end == 0 else 0):
            self.cr_anomalies += 1
        if f.type in (UA, DM) and f.cr != (1 if end == 1 else 0):
            self.cr_anomalies += 1
        if f.dlci == 0:
            self._tx_control(end, f)
        else:
            self._tx_dl(end, f)

    def rx(self, end: int, pdu: bytes):
        """pdu was delivered to `end` (so it was sent by 1-end)."""
        pdu = bytes(pdu)
        sender = 1 - end
        q = self.pending_tx[sender]
        if not q or q[0] != pdu:
            self._v('link_not_fifo', {}, f'frame delivered to end {end} is not the oldest undelivered frame sent by end {sender}')
            if pdu in q:
                q.remove(pdu)
        else:
            q.pop(0)
        f = decode(pdu)
        if f.errors:
            return
        if f.type == UIH and f.dlci != 0:
            d = self.dl(f.dlci)
            if d is None:
                return
            if f.credits:
                # credits granted by `sender` become known to `end`
                d.credits[end] = d.credits.get(end, 0) + f.credits
            d.delivered[sender] += f.payload

    # -- DLCI 0 ---------------------------------------------------------------
    def _tx_control(self, end, f: Frame):
        if f.type == SABM:
            self.mux = 'sabm'
        elif f.type == UA:
            if self.mux == 'sabm':
                self.mux = 'up'
            elif self.mux == 'disc':
                self.mux = 'down'
                for d in self.dls.values():
                    d.phase = 'closed'
        elif f.type == DISC:
            self.mux = 'disc'
        elif f.type == UIH:
            m = decode_mcc(f.payload)
            if m.errors:
                self._v('malformed_mcc', {'errors': sorted(m.errors)[:2]}, f'end {end} sent a malformed multiplexer command: {m.errors} {f.payload.hex()}')
                return
            if m.type == MCC_PN:
                pn = decode_pn(m.value)
                if pn is None:
                    self._v('malformed_mcc', {'errors': ['pn_length']}, f'PN with {len(m.value)} value octets')
                    return
                self._on_pn(end, bool(m.cr), pn)

    def _on_pn(self, end, is_command, pn):
        dlci = pn['dlci']
        if is_command:
            old = self.dls.get(dlci)
            d = Dl(dlci)
            if old is not None:
                d.generation = old.generation + 1
                self.closed_dls.append(old)
            self.dls[dlci] = d
            d.pn[end] = pn
        else:
            d = self.dls.get(dlci)
            if d is None:
                self._v('pn_response_without_command', {}, f'PN response for DLCI {dlci} without a command')
                return
            d.pn[end] = pn
            peer = 1 - end
            if peer in d.pn and pn['n1'] > d.pn[peer]['n1']:
                self.pn_response_larger += 1
        # credits granted by `end` to its peer
        d.credits[1 - end] = d.credits.get(1 - end, 0) + pn['k']

    # -- data links -------------------------------------------------------------
    def _tx_dl(self, end, f: Frame):
        d = self.dl(f.dlci)
        if f.type == DM:
            if d is not None:
                d.phase = 'closed'
            return
        if d is None:
            self._v('frame_on_unnegotiated_dlci', {'type': TYPE_NAMES[f.type]}, f'end {end} sent {f!r} on a DLCI never negotiated')
            return
        if f.type == SABM:
            d.phase = 'sabm'
        elif f.type == UA:
            if d.phase == 'sabm':
                d.phase = 'open'
            elif d.phase == 'disc':
                d.phase = 'closed'
        elif f.type == DISC:
            d.phase = 'disc'
            d.disc_by = end
        elif f.type == UIH:
            peer = 1 - end
            if d.phase not in ('open', 'disc'):
                # data before the link is up (UA not yet sent/seen) or after it is down
                if not (d.phase == 'sabm' and end == 1):
                    self._v('data_outside_open_link', {'phase': d.phase}, f'end {end} sent {f!r} while the data link is {d.phase}')
            n = len(f.payload)
            if f.credits is not None:
                d.credit_frames[end] += 1
                if n == 0:
                    d.empty_credit_frames[end] += 1
            if 1 in d.pn and n + (1 if f.credits is not None else 0) > d.pn[1]['n1']:
                # strict RFCOMM reading: the N1 of the PN *response* is the negotiated size for both directions
                self.frames_over_pn_response_n1 += 1
            if peer in d.pn:
                n1 = d.pn[peer]['n1']
                if n > n1:
                    self._v(
                        'payload_exceeds_max_frame_size',
                        {'with_credits': f.credits is not None, 'over_by': n - n1},
                        f'end {end} sent {n} payload bytes on DLCI {f.dlci}; the receiver announced a maximum frame size of {n1}',
                    )
                elif f.credits is not None and n > n1 - 1:
                    self._v(
                        'credit_frame_payload_exceeds_max_frame_size_minus_1',
                        {'over_by': n - (n1 - 1)},
                        f'end {end} sent {n} payload bytes plus a credit octet on DLCI {f.dlci}; maximum frame size is {n1} '
                        '(the credit octet reduces the payload room by one)',
                    )
            if n > 0:
                have = d.credits.get(end, 0)
                if d.min_credits[end] is None or have < d.min_credits[end]:
                    d.min_credits[end] = have
                if have <= 0:
                    self._v(
                        'data_without_credit',
                        {'credits': have},
                        f'end {end} sent a {n}-byte data frame on DLCI {f.dlci} holding {have} credits '
                        f'(frame #{d.frames[end] + 1} of that sender)',
                    )
                d.credits[end] = have - 1
                d.frames[end] += 1
                d.max_payload[end] = max(d.max_payload[end], n)
                d.sent[end] += f.payload

    # -- summaries -----------------------------------------------------------
    def open_dlcis(self):
        return sorted(k for k, d in self.dls.items() if d.phase == 'open')

    def session_up(self):
        return self.mux == 'up'


# ---------------------------------------------------------------------------
# AT lines on a byte stream
# ---------------------------------------------------------------------------
FINAL_CODES = ('OK', 'ERROR', 'NO CARRIER', 'BUSY', 'NO ANSWER', 'DELAYED', 'BLACKLISTED')


def at_command_lines(stream: bytes):
    """Commands HF -> AG: terminated by <CR>."""
    parts = bytes(stream).split(b'\r')
    return [p.decode('utf-8', 'replace') for p in parts[:-1]], bytes(parts[-1])


def is_final(line: str) -> bool:
    line = line.strip()
    if line in FINAL_CODES:
        return True
    return line.startswith('+CME ERROR')
