"""Virtual asyncio event loop under an explicit scheduler.

VLoop subclasses asyncio.BaseEventLoop: stock Task / Future / Queue / Event /
wait_for all work.  There is no selector and no real time: `time()` is a virtual
clock that only advances when nothing is runnable, to the next timer.

Scheduling model ("order-preserving delay"): every entry of `_ready` is
classified by a harness-supplied function into a *channel* (a hashable key, e.g.
('h2c', 0) host->controller HCI bytes of device 0) or None (internal callback).
Within one channel and among internal callbacks FIFO order is never changed.
At each step the enabled events are: the oldest internal callback and the
head-of-line handle of every channel.  The *default* is what stock asyncio would
run (the overall oldest handle).  A scheduler object decides; see explore.py.
"""
from __future__ import annotations

import asyncio
import collections
import gc
import heapq
from asyncio import events


class Hang(Exception):
    pass


class StepBudgetExceeded(Exception):
    pass


class VLoop(asyncio.BaseEventLoop):
    def __init__(self, classify=None):
        super().__init__()
        self._vtime = 0.0
        self.classify = classify or (lambda h: None)
        self.exceptions: list = []
        self.set_exception_handler(self._on_exception)
        self.steps = 0
        self.timer_fires = 0
        self.held: set = set()  # channels currently held back
        self.scheduler = None  # object with .choose(loop, enabled) -> index
        self.trace = None  # optional list of channel keys of executed handles
        self.on_step = None  # optional callback(handle, channel) before each step

    # ---- BaseEventLoop plumbing -----------------------------------------
    def time(self):
        return self._vtime

    def _write_to_self(self):
        pass

    def _process_events(self, event_list):
        pass

    def _on_exception(self, loop, context):
        exc = context.get('exception')
        self.exceptions.append((context.get('message'), repr(exc)))

    # ---- enabled-event computation --------------------------------------
    def _move_due_timers(self):
        while self._scheduled and self._scheduled[0]._cancelled:
            h = heapq.heappop(self._scheduled)
            h._scheduled = False
        end = self._vtime + self._clock_resolution
        while self._scheduled and self._scheduled[0]._when < end:
            h = heapq.heappop(self._scheduled)
            h._scheduled = False
            if not h._cancelled:
                self.timer_fires += 1
                self._ready.append(h)

    def _prune_ready(self):
        rd = self._ready
        while rd and rd[0]._cancelled:
            rd.popleft()

    def enabled(self):
        """[(position_in_ready, channel)] — first item is the stock-asyncio default
        (unless its channel is held)."""
        out = []
        seen = set()
        for pos, h in enumerate(tuple(self._ready)):
            if h._cancelled:
                continue
            ch = self.classify(h)
            if ch in seen:
                continue
            seen.add(ch)
            if ch is not None and ch in self.held:
                continue
            out.append((pos, ch))
        return out

    def next_timer(self):
        while self._scheduled and self._scheduled[0]._cancelled:
            h = heapq.heappop(self._scheduled)
            h._scheduled = False
        return self._scheduled[0]._when if self._scheduled else None

    # ---- stepping ----------------------------------------------------------
    def _run_handle_at(self, pos):
        rd = self._ready
        if pos == 0:
            h = rd.popleft()
        else:
            h = rd[pos]
            del rd[pos]
        self.steps += 1
        if self.trace is not None:
            self.trace.append(self.classify(h))
        if self.on_step is not None:
            self.on_step(h)
        h._run()
        h = None

    def step(self, horizon=None, allow_timers=True):
        """Run one event.  Returns False when nothing can run (quiescent up to
        horizon)."""
        if allow_timers:
            self._move_due_timers()
        self._prune_ready()
        if self.scheduler is None and not self.held and self._ready:
            # fast path: stock asyncio order
            self._run_handle_at(0)
            return True
        en = self.enabled()
        if not en:
            if self.held:
                # everything else is quiet: release held channels
                self.held.clear()
                en = self.enabled()
        if not en:
            if not allow_timers:
                return False
            when = self.next_timer()
            if when is None or (horizon is not None and when > horizon):
                return False
            self._vtime = max(self._vtime, when)
            self._move_due_timers()
            self._prune_ready()
            en = self.enabled()
            if not en:
                return True
        if self.scheduler is not None and (len(en) > 1 or self.scheduler.wants_all):
            idx = self.scheduler.choose(self, en)
        else:
            idx = 0
        if idx < 0:
            # hold: the default event's channel is held until quiescence
            ch = en[0][1]
            self.held.add(ch)
            return True
        self._run_handle_at(en[idx][0])
        return True

    # ---- running ------------------------------------------------------------
    def __enter__(self):
        self._old = events._get_running_loop()
        events._set_running_loop(None)
        events._set_running_loop(self)
        try:
            self._old_policy_loop = None
            asyncio.set_event_loop(self)
        except Exception:
            pass
        return self

    def __exit__(self, *a):
        events._set_running_loop(None)
        if self._old is not None:
            events._set_running_loop(self._old)
        try:
            asyncio.set_event_loop(None)
        except Exception:
            pass

    def run_until(self, pred, horizon=None, max_steps=200000, allow_timers=True):
        """Step until pred() is true; returns True if reached, False if the loop
        went quiescent first."""
        n = 0
        while not pred():
            if not self.step(horizon, allow_timers):
                return False
            n += 1
            if n > max_steps:
                raise StepBudgetExceeded(f'{max_steps} steps')
        return True

    def run_quiescent(self, horizon=None, max_steps=200000, allow_timers=False):
        """Run until nothing is ready (timers fire only if allow_timers, up to
        horizon)."""
        n = 0
        while self.step(horizon, allow_timers):
            n += 1
            if n > max_steps:
                raise StepBudgetExceeded(f'{max_steps} steps')
        return n

    def run(self, coro, horizon=None, max_steps=200000):
        """Run a coroutine to completion (timers allowed up to horizon).
        Raises Hang if the loop goes quiescent with the coroutine pending."""
        task = self.create_task(coro)
        if not self.run_until(task.done, horizon, max_steps):
            task.cancel()
            try:
                self.run_quiescent()
            except Exception:
                pass
            raise Hang('coroutine still pending at quiescence/horizon')
        return task.result()

    def advance(self, dt, max_steps=200000):
        """Let virtual time pass by dt, firing timers on the way."""
        target = self._vtime + dt
        n = 0
        while self.step(target, True):
            n += 1
            if n > max_steps:
                raise StepBudgetExceeded(f'{max_steps} steps')
        self._vtime = max(self._vtime, target)

    def collect_exceptions(self, gc_collect=False):
        """Exceptions seen by the loop exception handler since the last call.
        gc_collect=True first forces 'exception was never retrieved' reports of
        unreachable tasks/futures (slow: full collection)."""
        if gc_collect:
            gc.collect()
        ex, self.exceptions = self.exceptions, []
        return ex

    def shutdown(self):
        """Cancel everything so objects can be collected without warnings."""
        try:
            for t in asyncio.all_tasks(self):
                t.cancel()
            for _ in range(50):
                self._prune_ready()
                if not self._ready:
                    break
                self._run_handle_at(0)
        except BaseException:
            pass
        self._ready.clear()
        self._scheduled.clear()
        self.exceptions.clear()
        self._closed = True


# ---------------------------------------------------------------------------
# classification of bumble's message-delivery handles
# ---------------------------------------------------------------------------
def make_bumble_classifier(controllers, hosts):
    """Classify `_ready` handles from outside bumble.

    h2c[i]  : Controller.on_packet bound method scheduled by AsyncPipeSink
    c2h[i]  : Host.on_packet scheduled by Controller.send_hci_packet
    adv[i]  : Controller.on_ll_advertising_pdu (except CONNECT_IND, which is link[i])
    link[j] : closures created in bumble/link.py (destination j read from the
              closure cells when recognisable)
    """
    import bumble.link as blink

    link_file = blink.__file__
    cidx = {id(c): i for i, c in enumerate(controllers)}
    hidx = {id(h): i for i, h in enumerate(hosts)}

    def classify(handle):
        cb = handle._callback
        selfobj = getattr(cb, '__self__', None)
        name = getattr(cb, '__name__', '')
        if selfobj is not None:
            if name == 'on_packet':
                i = cidx.get(id(selfobj))
                if i is not None:
                    return ('h2c', i)
                i = hidx.get(id(selfobj))
                if i is not None:
                    return ('c2h', i)
            elif name == 'on_ll_advertising_pdu':
                i = cidx.get(id(selfobj))
                if i is not None:
                    # a CONNECT_IND opens the data channel to that controller: nothing sent on the new connection
                    # can reach the peer before it, so it travels in the same FIFO as the link's data
                    args = getattr(handle, '_args', None) or ()
                    if args and type(args[0]).__name__ == 'ConnectInd':
                        return ('link', i)
                    return ('adv', i)
            return None
        code = getattr(cb, '__code__', None)
        if code is not None and code.co_filename == link_file:
            dest = None
            for var, cell in zip(code.co_freevars, cb.__closure__ or ()):
                if var not in ('destination_controller', 'receiver_controller'):
                    continue
                try:
                    v = cell.cell_contents
                except ValueError:
                    continue
                dest = cidx.get(id(v))
            return ('link', dest)
        return None

    return classify
