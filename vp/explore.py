"""Deviation-bounded stateless exploration of schedules.

A *run function* `run_one(params, prefix) -> RunResult-dict` builds fresh real
objects, installs a `Sched(prefix)` on its VLoop, executes to completion and
returns
    {'points': [n_options_at_point_0, ...],   # every choice point seen
     'fp':     [fingerprint per point],       # for divergence detection
     'obs':    <JSON-able observation>,
     'viol':   [(check, signature, message)]}
`prefix` is a sparse dict {point_index: choice}; all other points take choice 0
(= what stock asyncio would do).  Choices 1..n-1 run the k-th other enabled event
first; choice n (only offered when the default event is a channel message) HOLDS
the default's channel until nothing else is runnable (maximal order-preserving
delay).  Cost = number of non-zero choices.  Levels are explored in order of cost
so the first counterexample has the fewest deviations.
"""
from __future__ import annotations

from . import core


class Divergence(Exception):
    pass


class Sched:
    wants_all = False

    def __init__(self, prefix=None, hold=True, expect_fp=None):
        self.prefix = {int(k): v for k, v in (prefix or {}).items()}
        self.points: list[int] = []
        self.fp: list = []
        self.active = False
        self.hold = hold
        self.expect_fp = expect_fp  # {index: fingerprint} recorded by the parent run
        self.last_index = max(self.prefix) if self.prefix else -1

    def choose(self, loop, enabled):
        if not self.active:
            return 0
        n = len(enabled)
        hold_ok = self.hold and enabled[0][1] is not None
        nopt = n + (1 if hold_ok else 0)
        i = len(self.points)
        fp = tuple(repr(ch) for _, ch in enabled)
        self.points.append(nopt)
        self.fp.append(fp)
        if self.expect_fp is not None and i in self.expect_fp and i <= self.last_index:
            if tuple(self.expect_fp[i]) != fp:
                raise Divergence(f'point {i}: expected {self.expect_fp[i]}, got {fp}')
        c = self.prefix.get(i, 0)
        if c == 0:
            return 0
        if c >= nopt:
            raise Divergence(f'point {i}: choice {c} out of range {nopt}')
        if hold_ok and c == n:
            return -1
        return c


def explore(run_one, params, bound, jobs, stats: core.Stats, max_runs=None, label='', on_result=None, window=None):
    """Explore all schedules with <= bound deviations.  Returns number of runs.

    window: optional (lo, hi) restricting the choice-point indices at which a
    deviation may be placed (reported as a cap when used)."""
    level = [({}, None)]
    runs = 0
    outcomes = set()
    for d in range(bound + 1):
        if not level:
            break
        items = [(run_one, params, p, fp) for p, fp in level]
        results = core.pmap(_run_item, items, jobs, chunksize=max(1, len(items) // (jobs * 8) or 1))
        nxt = []
        for (prefix, _), res in zip(level, results):
            runs += 1
            stats.evaluations += 1
            okey = core.digest(res['obs'])
            outcomes.add(okey)
            stats.distinct.add(core.digest([sorted(prefix.items()), res['fp']]))
            if len(stats.samples) < 4 and (d > 0 or runs == 1):
                stats.samples.append({'params': params, 'prefix': prefix, 'obs': res['obs']})
            stats.count('choice_points', len(res['points']) if d == 0 else 0)
            for check, sig, msg in res['viol']:
                stats.violation(check, sig, msg, {'params': params, 'prefix': prefix})
            if on_result is not None:
                on_result(prefix, res)
            if d == bound:
                continue
            start = (max(prefix) + 1) if prefix else 0
            fpmap = None
            for i in range(start, len(res['points'])):
                if window is not None and not (window[0] <= i < window[1]):
                    continue
                for alt in range(1, res['points'][i]):
                    child = dict(prefix)
                    child[i] = alt
                    if fpmap is None:
                        fpmap = {j: res['fp'][j] for j in range(len(res['fp']))}
                    nxt.append((child, {j: fpmap[j] for j in range(0, i + 1)}))
        if max_runs is not None and runs + len(nxt) > max_runs:
            stats.cap(f'{label}: schedule budget {max_runs} reached after completing deviation bound {d}')
            stats.count('completed_bound', 0)
            stats.counters[f'{label}completed_bound'] = d
            break
        stats.counters[f'{label}completed_bound'] = d
        level = nxt
    stats.add('outcomes', None)
    stats.sets['outcomes'] = stats.sets.get('outcomes', set()) | outcomes
    stats.sets['outcomes'].discard(None)
    return runs


def _run_item(item):
    run_one, params, prefix, fp = item
    return run_one(params, prefix, fp)
