"""Own every source of nondeterminism bumble consults, by patching module
attributes from the harness (bumble itself is not edited)."""
from __future__ import annotations

import hashlib
import os
import random
import secrets


class CounterStream:
    def __init__(self, seed: int = 0):
        self.seed = seed
        self.n = 0

    def reset(self, seed=None):
        if seed is not None:
            self.seed = seed
        self.n = 0

    def bytes(self, k: int) -> bytes:
        out = b''
        while len(out) < k:
            out += hashlib.sha256(f'{self.seed}:{self.n}'.encode()).digest()
            self.n += 1
        return out[:k]

    def below(self, n: int) -> int:
        return int.from_bytes(self.bytes(16), 'big') % n

    def randint(self, a: int, b: int) -> int:
        return a + self.below(b - a + 1)


STREAM = CounterStream(int(os.environ.get('VERIF_SEED', '0') or 0))
_installed = False
_orig = {}


class OrderedSet:
    """Insertion-ordered set-alike replacing LocalLink.controllers (a `set`
    iterated by object address in bumble)."""

    def __init__(self):
        self._d = {}

    def add(self, x):
        self._d[x] = None

    def remove(self, x):
        del self._d[x]

    def discard(self, x):
        self._d.pop(x, None)

    def __iter__(self):
        return iter(list(self._d))

    def __len__(self):
        return len(self._d)

    def __contains__(self, x):
        return x in self._d

    def reorder(self, order):
        items = list(self._d)
        self._d = {items[i]: None for i in order}


def install():
    """Idempotent.  After this, bumble's random draws come from STREAM."""
    global _installed
    if _installed:
        return
    _installed = True
    _orig['token_bytes'] = secrets.token_bytes
    _orig['randbelow'] = secrets.randbelow
    _orig['randint'] = random.randint
    secrets.token_bytes = lambda n=32: STREAM.bytes(n)
    secrets.randbelow = lambda n: STREAM.below(n)
    random.randint = lambda a, b: STREAM.randint(a, b)

    import bumble.crypto as bcrypto
    from bumble import link as blink

    real_ecc = bcrypto.EccKey
    _orig['ecc_generate'] = real_ecc.__dict__['generate']

    def generate(cls):
        while True:
            d = STREAM.bytes(32)
            v = int.from_bytes(d, 'big')
            if 0 < v < 0xFFFFFFFF00000000FFFFFFFFFFFFFFFFBCE6FAADA7179E84F3B9CAC2FC632551:
                return cls.from_private_key_bytes(d)

    real_ecc.generate = classmethod(generate)

    orig_init = blink.LocalLink.__init__

    def link_init(self, *a, **k):
        orig_init(self, *a, **k)
        self.controllers = OrderedSet()

    blink.LocalLink.__init__ = link_init


def reset(seed=None):
    STREAM.reset(seed)
