"""Shared runner plumbing: context, violation records, known-findings matching,
evidence writing, parallel map.

A *violation* is (check, signature, message, case).  `signature` is a small JSON
object identifying the failing input / call site / history precisely; it is what
known_findings.json is matched against (exact match).  `case` is whatever the
property module needs to replay the failure without the explorer.
"""
from __future__ import annotations

import hashlib
import json
import multiprocessing as mp
import os
import sys
import time
import traceback
from typing import Any, Callable, Iterable

ROOT = os.path.dirname(os.path.dirname(os.path.abspath(__file__)))
if os.environ.get('VERIF_REPO', '/repo') in ('', '/repo'):
    EVIDENCE_DIR = os.path.join(ROOT, 'evidence')
    REPLAY_DIR = os.path.join(ROOT, 'replays')
else:
    # runs against a scratch copy of the repository (mutation experiments) must not
    # clobber the evidence / replays of the real tree
    _ALT = os.path.join(ROOT, '.work', 'alt', os.path.basename(os.environ['VERIF_REPO'].rstrip('/')))
    EVIDENCE_DIR = os.path.join(_ALT, 'evidence')
    REPLAY_DIR = os.path.join(_ALT, 'replays')
FINDINGS_FILE = os.path.join(ROOT, 'known_findings.json')


def canon_json(obj: Any) -> str:
    return json.dumps(obj, sort_keys=True, separators=(',', ':'), default=_default)


def _default(o):
    if isinstance(o, (bytes, bytearray)):
        return bytes(o).hex()
    if isinstance(o, (set, frozenset)):
        return sorted(o, key=repr)
    if isinstance(o, tuple):
        return list(o)
    return repr(o)


def digest(obj: Any) -> str:
    return hashlib.sha256(canon_json(obj).encode()).hexdigest()[:16]


class Violation:
    __slots__ = ('check', 'signature', 'message', 'case')

    def __init__(self, check: str, signature: dict, message: str, case: Any):
        self.check = check
        self.signature = dict(signature, check=check)
        self.message = message
        self.case = case

    def to_json(self):
        return {
            'check': self.check,
            'signature': self.signature,
            'message': self.message,
            'case': self.case,
        }

    @staticmethod
    def from_json(d):
        v = Violation(d['check'], d['signature'], d['message'], d['case'])
        return v

    @property
    def key(self) -> str:
        return canon_json(self.signature)


class Stats:
    """Coverage counters of one sub-check, mergeable across worker processes."""

    def __init__(self, name: str = ''):
        self.name = name
        self.evaluations = 0
        self.distinct: set[str] = set()
        self.samples: list = []
        self.violations: list[Violation] = []
        self.counters: dict[str, int] = {}
        self.sets: dict[str, set] = {}
        self.exhaustive = True
        self.notes: list[str] = []
        self.caps: list[str] = []

    # -- recording ---------------------------------------------------------
    def case(self, distinct_key: Any = None, sample: Any = None, nontrivial=True):
        self.evaluations += 1
        if distinct_key is not None and nontrivial:
            if isinstance(distinct_key, str) and len(distinct_key) <= 20:
                self.distinct.add(distinct_key)
            else:
                self.distinct.add(digest(distinct_key))
        if sample is not None and len(self.samples) < 6:
            self.samples.append(sample)

    def count(self, name: str, n: int = 1):
        self.counters[name] = self.counters.get(name, 0) + n

    def add(self, name: str, item):
        self.sets.setdefault(name, set()).add(item)

    def violation(self, check: str, signature: dict, message: str, case: Any = None):
        v = Violation(check, signature, message, case)
        # keep one (the first) representative per signature
        for old in self.violations:
            if old.key == v.key:
                return
        self.violations.append(v)

    def cap(self, what: str):
        self.exhaustive = False
        if what not in self.caps:
            self.caps.append(what)

    # -- merging -----------------------------------------------------------
    def merge(self, other: 'Stats'):
        self.evaluations += other.evaluations
        self.distinct |= other.distinct
        for s in other.samples:
            if len(self.samples) < 6:
                self.samples.append(s)
        for v in other.violations:
            if all(o.key != v.key for o in self.violations):
                self.violations.append(v)
        for k, n in other.counters.items():
            self.counters[k] = self.counters.get(k, 0) + n
        for k, s in other.sets.items():
            self.sets.setdefault(k, set()).update(s)
        self.exhaustive = self.exhaustive and other.exhaustive
        for c in other.caps:
            if c not in self.caps:
                self.caps.append(c)
        for n in other.notes:
            if n not in self.notes:
                self.notes.append(n)
        return self

    def summary(self) -> dict:
        d = {
            'evaluations': self.evaluations,
            'distinct_nontrivial': len(self.distinct),
            'violations': len(self.violations),
            'exhaustive': self.exhaustive,
        }
        d.update(self.counters)
        for k, s in self.sets.items():
            d[k] = len(s)
        if self.caps:
            d['caps_hit'] = self.caps
        if self.notes:
            d['notes'] = self.notes
        return d


class Context:
    def __init__(self, prop: str, tier: str, seed: int, jobs: int):
        self.prop = prop
        self.tier = tier
        self.seed = seed
        self.jobs = jobs
        self.quick = tier == 'quick'
        self.t0 = time.time()
        self.subs: dict[str, Stats] = {}
        self.deadline = None

    def sub(self, name: str) -> Stats:
        if name not in self.subs:
            self.subs[name] = Stats(name)
        return self.subs[name]

    def log(self, *a):
        print(f'[{self.prop} {time.time() - self.t0:6.1f}s]', *a, flush=True)

    def elapsed(self):
        return time.time() - self.t0


# ---------------------------------------------------------------------------
# parallel map with long-lived workers
# ---------------------------------------------------------------------------
_POOL = None


def _worker_init():
    import faulthandler
    import signal

    signal.signal(signal.SIGINT, signal.SIG_IGN)
    faulthandler.register(signal.SIGUSR1, all_threads=False)  # kill -USR1 <worker> dumps its Python stack
    try:  # a worker never outlives the runner (PR_SET_PDEATHSIG = 1)
        import ctypes

        ctypes.CDLL(None).prctl(1, int(signal.SIGKILL))
        if os.getppid() == 1:
            os._exit(0)
    except Exception:
        pass


def _call(args):
    fn, item = args
    try:
        return ('ok', fn(item))
    except BaseException as e:  # noqa
        return ('err', f'{type(e).__name__}: {e}\n{traceback.format_exc()}')


class HarnessError(Exception):
    pass


def pmap(fn: Callable, items: Iterable, jobs: int, chunksize: int = 1):
    """Apply a *module-level* function to items in long-lived worker processes.
    Results come back in order.  A worker exception is a harness error."""
    items = list(items)
    if jobs <= 1 or len(items) <= 1:
        out = []
        for it in items:
            st, r = _call((fn, it))
            if st == 'err':
                raise HarnessError(r)
            out.append(r)
        return out
    global _POOL
    if _POOL is None:
        # keep the parent's heap out of the children's generation-2 collections (and un-shared pages)
        import gc

        gc.collect()
        gc.freeze()
        ctx = mp.get_context('fork')
        _POOL = ctx.Pool(jobs, initializer=_worker_init)
    out = []
    for st, r in _POOL.imap(_call, [(fn, it) for it in items], chunksize):
        if st == 'err':
            raise HarnessError(r)
        out.append(r)
    return out


_DEAD_POOLS = []


def close_pool():
    global _POOL
    if _POOL is not None:
        pool, _POOL = _POOL, None
        # kill the workers outright: Pool.terminate()/join() can wait for ever on workers that are in the middle of a
        # long task after a harness error (seen: the runner never exited when its output was a pipe)
        try:
            # stop the pool's maintenance thread first: it would replace killed workers with new ones, which then
            # outlive the runner and keep its output pipe open
            pool._worker_handler._state = 'TERMINATE'
            pool._state = 'TERMINATE'
        except Exception:
            pass
        for p in list(getattr(pool, '_pool', []) or []):
            try:
                p.kill()
            except Exception:
                pass
        # never let the Pool object be finalised (its finaliser takes a queue lock a killed worker may hold): keep it
        # referenced; the runner leaves with os._exit
        _DEAD_POOLS.append(pool)


def state_key(obj, depth=3):
    """Hashable summary of every data attribute of a real object, whatever the attributes are called (so that a check
    does not depend on the names of private fields): ints/bools/bytes/str as they are, events by is_set(), containers by
    their items (packet-like objects by type name), nested plain objects by their own attributes."""
    import asyncio
    import collections

    def k(v, d):
        if isinstance(v, (bool, int, float, str, bytes, type(None))):
            return v
        if isinstance(v, (bytearray, memoryview)):
            return bytes(v)
        if isinstance(v, asyncio.Event):
            return ('event', v.is_set())
        if isinstance(v, (asyncio.Future,)):
            return ('future', v.done())
        if isinstance(v, (list, tuple, collections.deque)):
            return tuple(k(x, d) for x in v)
        if isinstance(v, (set, frozenset)):
            return tuple(sorted((k(x, d) for x in v), key=repr))
        if isinstance(v, dict):
            return tuple(sorted(((k(a, d), k(b, d)) for a, b in v.items()), key=repr))
        if callable(v):
            return 'callable'
        if d > 0 and hasattr(v, '__dict__') and not isinstance(v, type):
            # plain data holders only (dataclasses and the like); anything else by type name
            if type(v).__module__.startswith('bumble') and len(vars(v)) <= 8 and not hasattr(v, 'op_code') and not hasattr(v, 'connection_handle'):
                return (type(v).__name__,) + tuple((a, k(b, d - 1)) for a, b in sorted(vars(v).items()))
        return type(v).__name__

    return tuple((a, k(b, depth)) for a, b in sorted(vars(obj).items()))


def split(items: list, n: int) -> list[list]:
    """n interleaved slices (balanced when cost correlates with position)."""
    n = max(1, min(n, len(items)))
    return [items[i::n] for i in range(n)]


# ---------------------------------------------------------------------------
# known findings
# ---------------------------------------------------------------------------
def load_findings(prop: str):
    if not os.path.exists(FINDINGS_FILE):
        return {}
    with open(FINDINGS_FILE) as f:
        data = json.load(f)
    out = {}
    for e in data.get('findings', []):
        if e.get('property') == prop:
            out[canon_json(e['signature'])] = e
    return out


# ---------------------------------------------------------------------------
# finishing a run
# ---------------------------------------------------------------------------
def finish(ctx: Context, level: str, rule: str, assumptions: list[str], extra: dict | None = None) -> int:
    known = load_findings(ctx.prop)
    total = Stats('total')
    per_sub = {}
    for name, st in ctx.subs.items():
        per_sub[name] = st.summary()
        total.merge(st)
    new = []
    seen_known = []
    for v in total.violations:
        if v.key in known:
            seen_known.append((v, known[v.key]))
        else:
            new.append(v)

    os.makedirs(EVIDENCE_DIR, exist_ok=True)
    samples = []
    for name, st in ctx.subs.items():
        for s in st.samples[:3]:
            samples.append({'sub_check': name, 'case': s})
    coverage = {
        'evaluations': total.evaluations,
        'distinct_nontrivial': len(total.distinct),
        'rule': rule,
        'samples': json.loads(canon_json(samples)) or [{'note': 'no sample recorded'}],
        'exhaustive': total.exhaustive,
        'sub_checks': per_sub,
        'known_findings_reobserved': [v.signature for v, _ in seen_known],
        'known_findings_listed': len(known),
    }
    if total.caps:
        coverage['caps_hit'] = total.caps
    if extra:
        coverage.update(extra)
    ev = {
        'property_id': ctx.prop,
        'tier': ctx.tier,
        'seed': ctx.seed,
        'level': level,
        'coverage': coverage,
        'assumptions': assumptions,
        'wall_s': round(time.time() - ctx.t0, 2),
        'violations': len(new),
    }
    with open(os.path.join(EVIDENCE_DIR, f'{ctx.prop}.json'), 'w') as f:
        json.dump(ev, f, indent=1, sort_keys=True)
        f.write('\n')

    for v, e in seen_known:
        print(f'KNOWN-FINDING: property={ctx.prop} {e.get("what", v.message)} [{v.key}]')
    rc = 0
    for v in new:
        path = save_replay(ctx.prop, v)
        print(f'  violation: {v.message}')
        print(f'  signature: {v.key}')
        print(f'VIOLATION property={ctx.prop} replay={path}')
        rc = 1
    for name, s in per_sub.items():
        ctx.log(f'  {name}: {s}')
    ctx.log(
        f'done: evaluations={total.evaluations} distinct={len(total.distinct)} '
        f'new_violations={len(new)} known={len(seen_known)} exhaustive={total.exhaustive}'
    )
    return rc


def save_replay(prop: str, v: Violation) -> str:
    d = os.path.join(REPLAY_DIR, prop)
    os.makedirs(d, exist_ok=True)
    h = digest(v.signature)
    path = os.path.join(d, f'{h}.json')
    with open(path, 'w') as f:
        f.write(canon_json(dict(v.to_json(), property=prop)))
        f.write('\n')
    test = os.path.join(d, f'test_replay_{h}.py')
    with open(test, 'w') as f:
        f.write(
            '# generated: replays one recorded violation without the explorer\n'
            'import json, os, subprocess, sys\n'
            f'ROOT = {ROOT!r}\n'
            f'def test_replay_{h}():\n'
            f'    r = subprocess.run([os.path.join(ROOT, "check"), {prop!r}, "--replay", {path!r}])\n'
            '    assert r.returncode == 0, "violation reproduced (exit %d)" % r.returncode\n'
        )
    return path
