"""fieldenum -- bounded-exhaustive enumeration of bumble `HCI_Object`-style `fields` specs.

Owner: C01 (also used by C18).  Everything here is *input generation and reference
encoding*; nothing here is an oracle by itself.

A `fields` spec is what `bumble.hci.HCI_Object` codecs are driven by: a sequence of
`(name, spec)` tuples, where a nested *list* of such tuples is a repeated group
(1-byte item count, then the sub-fields of item 0, item 1, ...; the keyword argument of
every sub-field is a list with one entry per item).

PUBLIC API (keep it this small)
-------------------------------
enumerate_kwargs(cls_or_fields, k, *, counts=(1, 0, 2, 3), budget=None, overrides=None,
                 nested_k=1, var_max=255, rest_max=64)
    Yield `(kwargs, dev)` for every assignment with <= k *deviations*, ascending in the
    number of deviations (so the first failing case is a minimal one).  `kwargs` can be
    passed to the class constructor (`cls(**kwargs)`).  Every field has a boundary domain
    whose first value is its *simplest* value (0, empty, all-zero array, lowest enum
    member...); a deviation is one field (or one sub-field of one item of a repeated group)
    at another value of its domain, or a repeated group with an item count other than
    `counts[0]`.  Item j of a repeated group defaults to the j-th domain value of each
    sub-field, so that items differ from each other without costing a deviation.
    `dev` is a JSON-able list identifying the case: `['#', group_index, count]` or
    `[field_name, item_index (-1 for a plain field), domain_index]`.
    `budget`: maximum encoded size in bytes (255 for HCI command/event parameters); the
    "as long as possible" value of `'v'`/`'*'` fields fills the packet exactly up to the
    budget; cases whose fixed part alone exceeds it are not yielded (count them with
    `over_budget(...)`).  With `budget=None`, `var_max` / `rest_max` are used.
    `overrides`: `{field_name: [values...]}` replaces the domain of a field (first = simplest).
build(cls_or_fields, dev, **same options)      -> kwargs of one case (None if over budget)
count_cases(cls_or_fields, k, **same options)  -> (yielded, over_budget)
ref_encode(cls_or_fields, kwargs)              -> bytes; reference encoder written from the
                                                  documented field-spec semantics
                                                  (bumble/hci.py "Field Metadata" comment)
diff(cls_or_fields, kwargs, obj)               -> names of fields whose value in `obj`
                                                  (attributes) differs from `kwargs`
rebuild_kwargs(cls_or_fields, obj)             -> kwargs read back from the attributes of a
                                                  parsed object, nested values re-created
describe(spec)                                 -> short stable name of a spec
probed_specs(cls_or_fields)                    -> [(field_name, description)] of specs that
                                                  are not in the known table (see below)
domain_size(cls_or_fields)                     -> {field_name: number of domain values}
set_fill_seed(seed) / fill_seed()              -> VERIF_SEED only changes fill bytes

Known spec table: ints 1,2,3,4,-1,-2, '>2', '>4', n-byte arrays (5..256), 'v', '*',
`{'size': n, ...}` dicts, `SpecableEnum/SpecableFlag.type_spec` dicts (every member + one
undefined value), `Address.parse_address / parse_random_address /
parse_address_preceded_by_type` (the address type of the latter is forced to the value
of the preceding byte, as on the wire), `CodingFormat.parse_from_bytes`,
`<HCI_Dataclass_Object subclass>.parse_from_bytes` (nested fields, recursively),
length-prefixed-and-padded dicts.  Any other parser callable is *probed*: its domain
is what the real parser returns for three byte patterns, and the reference encoding
of such a value is the prefix the parser consumed (reported through `probed_specs`).
"""
from __future__ import annotations

import functools
import inspect
import itertools
import struct
from typing import Any, Iterator

_SEED = 0


def set_fill_seed(seed: int) -> None:
    global _SEED
    _SEED = int(seed) % 19


def fill_seed() -> int:
    return _SEED


def pattern(n: int, salt: int = 0) -> bytes:
    """n fill bytes; byte i differs from byte i+1 and the first byte is never 0."""
    return bytes(((7 * i + 1 + 13 * _SEED + salt) % 255) + 1 for i in range(n))


# ---------------------------------------------------------------------------
# spec classification
# ---------------------------------------------------------------------------
class Kind:
    __slots__ = ('tag', 'size', 'big', 'cls', 'sub', 'aux', 'label')

    def __init__(self, tag, size=None, big=False, cls=None, sub=None, aux=None, label=''):
        self.tag, self.size, self.big, self.cls, self.sub, self.aux, self.label = tag, size, big, cls, sub, aux, label


_KIND_CACHE: dict[Any, Kind] = {}
_KEEPALIVE: list = []  # specs whose id() is used as a cache key must stay alive


def _fields_of(cls_or_fields):
    if isinstance(cls_or_fields, (list, tuple)):
        return cls_or_fields
    return cls_or_fields.fields


def _hci():
    from bumble import hci

    return hci


def _enum_closure(spec: dict):
    """(cls, size, byteorder) of a SpecableEnum/SpecableFlag.type_spec dict, read from the closures
    of its lambdas (union over parser / serializer / mapper, so that an edit to one of them does
    not hide the declaration)."""
    nl = {}
    for key in ('mapper', 'serializer', 'parser'):
        fn = spec.get(key)
        if fn is None or not inspect.isfunction(fn) or 'type_spec' not in getattr(fn, '__qualname__', ''):
            continue
        try:
            nl.update(inspect.getclosurevars(fn).nonlocals)
        except TypeError:
            pass
    if 'cls' in nl and 'size' in nl:
        return nl['cls'], nl['size'], nl.get('byteorder', 'little')
    return None


def classify(spec) -> Kind:
    key = spec if isinstance(spec, (int, str)) else id(spec)
    k = _KIND_CACHE.get(key)
    if k is None:
        k = _classify(spec)
        _KIND_CACHE[key] = k
        if not isinstance(spec, (int, str)):
            _KEEPALIVE.append(spec)
    return k


def _classify(spec) -> Kind:
    import enum

    hci = _hci()
    if isinstance(spec, bool):
        raise TypeError('bool is not a field spec')
    if isinstance(spec, int):
        if spec in (1, 2, 3, 4):
            return Kind('uint', size=spec, label=str(spec))
        if spec in (-1, -2):
            return Kind('sint', size=-spec, label=str(spec))
        if 4 < spec <= 256:
            return Kind('bytes_n', size=spec, label=f'bytes[{spec}]')
        raise ValueError(f'unknown integer field spec {spec}')
    if isinstance(spec, str):
        if spec == '>2':
            return Kind('uint', size=2, big=True, label='>2')
        if spec == '>4':
            return Kind('uint', size=4, big=True, label='>4')
        if spec == '*':
            return Kind('rest', label='*')
        if spec == 'v':
            return Kind('var', label='v')
        raise ValueError(f'unknown string field spec {spec!r}')
    if isinstance(spec, dict):
        if 'size' in spec:
            inner = classify(spec['size'])
            return Kind(inner.tag, size=inner.size, big=inner.big, label='{size:%s}' % inner.label)
        if 'parser' in spec:
            parser = spec['parser']
            ec = _enum_closure(spec)
            if ec is not None and isinstance(ec[0], type) and issubclass(ec[0], enum.IntEnum):
                return Kind('enum', size=ec[1], big=ec[2] == 'big', cls=ec[0], label=f'enum:{ec[0].__name__}/{ec[1]}' + ('be' if ec[2] == 'big' else ''))
            if ec is not None and isinstance(ec[0], type) and issubclass(ec[0], enum.IntFlag):
                return Kind('flag', size=ec[1], big=ec[2] == 'big', cls=ec[0], label=f'flag:{ec[0].__name__}/{ec[1]}' + ('be' if ec[2] == 'big' else ''))
            ser = spec.get('serializer')
            if (
                parser is hci.HCI_Object.parse_length_prefixed_bytes
                and isinstance(ser, functools.partial)
                and ser.func is hci.HCI_Object.serialize_length_prefixed_bytes
                and 'padded_size' in ser.keywords
            ):
                p = ser.keywords['padded_size']
                return Kind('vpad', size=p, label=f'vpad[{p}]')
            return _classify_callable(parser)
        raise ValueError(f'dict field spec without size/parser: {sorted(spec)}')
    if callable(spec):
        return _classify_callable(spec)
    raise ValueError(f'unknown field spec {spec!r}')


def _classify_callable(fn) -> Kind:
    hci = _hci()
    func = getattr(fn, '__func__', None)
    owner = getattr(fn, '__self__', None)
    if func is not None and isinstance(owner, type):
        if issubclass(owner, hci.Address):
            if func is hci.Address.parse_address.__func__:
                return Kind('addr', cls=owner, aux=hci.AddressType.PUBLIC_DEVICE, label='address(public)')
            if func is hci.Address.parse_random_address.__func__:
                return Kind('addr', cls=owner, aux=hci.AddressType.RANDOM_DEVICE, label='address(random)')
            if func is hci.Address.parse_address_preceded_by_type.__func__:
                return Kind('addr_pbt', cls=owner, label='address(preceded by type)')
        if owner is hci.CodingFormat and func is hci.CodingFormat.parse_from_bytes.__func__:
            return Kind('coding_format', cls=owner, label='CodingFormat')
        if issubclass(owner, hci.HCI_Dataclass_Object) and func is hci.HCI_Dataclass_Object.parse_from_bytes.__func__:
            sub = hci.HCI_Object.fields_from_dataclass(owner)
            return Kind('nested', cls=owner, sub=sub, label=f'nested:{owner.__qualname__}')
    name = getattr(fn, '__qualname__', None) or repr(fn)
    return Kind('probed', aux=fn, label=f'probed:{name}')


def describe(spec) -> str:
    return classify(spec).label


# ---------------------------------------------------------------------------
# domains (templates; first value = simplest)
# ---------------------------------------------------------------------------
class _Max:
    """'as long as fits' marker for 'v' / '*' fields, resolved when a case is materialised."""

    __slots__ = ('tag',)

    def __init__(self, tag):
        self.tag = tag

    def __repr__(self):
        return f'<max {self.tag}>'


class _Nested:
    __slots__ = ('cls', 'plan', 'tmpl')

    def __init__(self, cls, plan, tmpl):
        self.cls, self.plan, self.tmpl = cls, plan, tmpl


UINT = {
    1: [0, 1, 0x7F, 0x80, 0xFF],
    2: [0, 1, 0xFF, 0x100, 0x7FFF, 0x8000, 0xFFFF],
    3: [0, 1, 0xFF, 0x100, 0xFFFF, 0x010000, 0x7FFFFF, 0x800000, 0xFFFFFF],
    4: [0, 1, 0xFF, 0x100, 0xFFFF, 0x010000, 0x7FFFFFFF, 0x80000000, 0xFFFFFFFF],
}
SINT = {
    1: [0, 1, -1, 0x7F, -0x80],
    2: [0, 1, -1, 0xFF, 0x100, -0x100, 0x7FFF, -0x8000],
}
_PROBE_CACHE: dict[int, list] = {}
_COUNT_BYTE = Kind('uint', size=1, label='1')


def _enum_values(kind: Kind) -> list:
    cls, size = kind.cls, kind.size
    top = (1 << (8 * size)) - 1
    members = sorted({int(m.value) for m in cls if 0 <= int(m.value) <= top})
    if kind.tag == 'enum':
        vals = list(members)
        undefined = next((v for v in (top, top - 1, 0x7F, 0x80) if v not in members and 0 <= v <= top), None)
        if undefined is None:
            undefined = next((v for v in range(top + 1) if v not in members), None)
        if undefined is not None:
            vals.append(undefined)
        if not vals:
            vals = [0]
    else:  # flag: 0, every member, all members together, one undefined bit, all ones
        allbits = 0
        for m in members:
            allbits |= m
        vals = [0] + [m for m in members if m != 0]
        for extra in (allbits, next((1 << b for b in range(8 * size - 1, -1, -1) if not (allbits >> b) & 1), None), top):
            if extra is not None and extra not in vals:
                vals.append(extra)
    out = []
    for v in vals:
        try:
            out.append(cls(v))
        except ValueError:  # a closed enum: undefined values cannot be represented
            pass
        except TypeError as e:  # the enum's own construction of a value fails: a field value that cannot exist
            BROKEN_ENUMS.setdefault(f'{cls.__module__}.{cls.__qualname__}', (int(v), f'{type(e).__name__}: {e}'))
    return out


BROKEN_ENUMS: dict = {}  # enum class -> (value, error) for values whose construction raised something other than ValueError


def _coding_formats(cls) -> list:
    hci = _hci()
    ids = sorted({int(m.value) for m in hci.CodecID})
    out = [cls(hci.CodecID(i), 0, 0) for i in ids]
    undefined = next(v for v in (0x7F, 0x80, 0xFE) if v not in ids)
    out.append(cls(hci.CodecID(undefined), 0, 0))
    out.append(cls(hci.CodecID(0xFF), 0xFFFF, 0xFFFF))
    out.append(cls(hci.CodecID(ids[0]), 0x0100, 0x8000))
    out.append(cls(hci.CodecID(ids[0]), 0x00FF, 0x7FFF))
    return out


def _probe(kind: Kind) -> list:
    key = id(kind.aux)
    if key not in _PROBE_CACHE:
        out = []
        for pat in (bytes(64), bytes(range(1, 65)), b'\xff' * 64):
            try:
                new_offset, value = kind.aux(pat, 0)
            except Exception:  # the parser rejects this pattern: not a value of the domain
                continue
            if not 0 <= new_offset <= len(pat):
                continue
            out.append((value, pat[:new_offset]))
        _PROBE_CACHE[key] = out
    return _PROBE_CACHE[key]


def _choices(kind: Kind, nested_k: int, counts) -> list:
    t = kind.tag
    if t == 'uint':
        return list(UINT[kind.size])
    if t == 'sint':
        return list(SINT[kind.size])
    if t == 'bytes_n':
        n = kind.size
        return [bytes(n), ('pattern', n), b'\xff' * n]
    if t == 'rest':
        return [b'', ('pattern', 1), ('pattern', 17), _Max('rest')]
    if t == 'var':
        return [b'', ('pattern', 1), ('pattern', 17), _Max('var')]
    if t == 'vpad':
        return [b'', ('pattern', 1), ('pattern', kind.size - 1)]
    if t in ('enum', 'flag'):
        return _enum_values(kind)
    if t in ('addr', 'addr_pbt'):
        return [('addrbytes', bytes(6)), ('addrbytes', bytes([1, 2, 3, 4, 5, 6])), ('addrbytes', b'\xff' * 6)]
    if t == 'coding_format':
        return _coding_formats(kind.cls)
    if t == 'nested':
        plan = _Plan(kind.sub, counts, None, max(0, nested_k - 1))
        return [_Nested(kind.cls, plan, plan.template(dev)) for dev in plan.devs(nested_k)]
    if t == 'probed':
        return [('probed', i) for i in range(len(_probe(kind)))]
    raise AssertionError(t)


# ---------------------------------------------------------------------------
# reference encoder (written from the documented semantics, no bumble code involved)
# ---------------------------------------------------------------------------
def _enc(kind: Kind, v) -> bytes:
    t = kind.tag
    if t in ('uint', 'enum', 'flag'):
        v = int(v)
        if not 0 <= v < (1 << (8 * kind.size)):
            raise ValueError(f'{v} out of range for {kind.label}')
        return v.to_bytes(kind.size, 'big' if kind.big else 'little')
    if t == 'sint':
        v = int(v)
        half = 1 << (8 * kind.size - 1)
        if not -half <= v < half:
            raise ValueError(f'{v} out of range for {kind.label}')
        return (v & ((half << 1) - 1)).to_bytes(kind.size, 'little')
    if t == 'bytes_n':
        b = bytes(v)
        if len(b) != kind.size:
            raise ValueError(f'{len(b)} bytes for {kind.label}')
        return b
    if t == 'rest':
        return bytes(v)
    if t == 'var':
        b = bytes(v)
        if len(b) > 255:
            raise ValueError('v field longer than 255')
        return bytes([len(b)]) + b
    if t == 'vpad':
        b = bytes(v)
        if len(b) > kind.size - 1:
            raise ValueError('padded length-prefixed field too long')
        return bytes([len(b)]) + b + bytes(kind.size - 1 - len(b))
    if t in ('addr', 'addr_pbt'):
        b = bytes(v.address_bytes)
        if len(b) != 6:
            raise ValueError('address length')
        return b
    if t == 'coding_format':
        return struct.pack('<BHH', int(v.codec_id), v.company_id, v.vendor_specific_codec_id)
    if t == 'nested':
        return _ref_encode(kind.sub, {n: getattr(v, n) for n in _flat_names(kind.sub)})
    if t == 'probed':
        for value, raw in _probe(kind):
            if value is v:
                return raw
        raise ValueError(f'value of {kind.label} is not one of the probed values')
    raise AssertionError(t)


def _flat_names(fields) -> list[str]:
    out = []
    for f in fields:
        if isinstance(f, list):
            out.extend(n for n, _ in f)
        else:
            out.append(f[0])
    return out


def _ref_encode(fields, kwargs) -> bytes:
    out = bytearray()
    for f in fields:
        if isinstance(f, list):
            lists = [kwargs[n] for n, _ in f]
            n_items = len(lists[0])
            if any(len(x) != n_items for x in lists):
                raise ValueError('repeated group with lists of different lengths')
            if n_items > 255:
                raise ValueError('more than 255 items')
            out.append(n_items)
            for j in range(n_items):
                for (n, s), lst in zip(f, lists):
                    out += _enc(classify(s), lst[j])
        else:
            out += _enc(classify(f[1]), kwargs[f[0]])
    return bytes(out)


def ref_encode(cls_or_fields, kwargs) -> bytes:
    return _ref_encode(_fields_of(cls_or_fields), kwargs)


# ---------------------------------------------------------------------------
# comparing / rebuilding values
# ---------------------------------------------------------------------------
def _eq(kind: Kind, a, b) -> bool:
    import enum

    t = kind.tag
    try:
        if t in ('uint', 'sint', 'enum', 'flag'):
            if isinstance(a, bool) or isinstance(b, bool) or not isinstance(a, int) or not isinstance(b, int):
                return False
            if isinstance(a, enum.Enum) and isinstance(b, enum.Enum) and type(a) is not type(b):
                return False
            return int(a) == int(b)
        if t in ('bytes_n', 'rest', 'var', 'vpad'):
            if isinstance(a, (int, str)) or isinstance(b, (int, str)):
                return False
            return bytes(a) == bytes(b)
        if t in ('addr', 'addr_pbt'):
            return (
                type(a) is type(b)
                and bytes(a.address_bytes) == bytes(b.address_bytes)
                and int(a.address_type) == int(b.address_type)
            )
        if t == 'coding_format':
            return (
                type(a) is type(b)
                and int(a.codec_id) == int(b.codec_id)
                and a.company_id == b.company_id
                and a.vendor_specific_codec_id == b.vendor_specific_codec_id
            )
        if t == 'nested':
            if type(a) is not type(b):
                return False
            return not _diff(kind.sub, {n: getattr(a, n) for n in _flat_names(kind.sub)}, b)
        if t == 'probed':
            if hasattr(a, 'address_bytes') and hasattr(b, 'address_bytes'):
                return bytes(a.address_bytes) == bytes(b.address_bytes) and int(a.address_type) == int(b.address_type)
            return type(a) is type(b) and a == b
    except Exception:
        return False
    raise AssertionError(t)


def _diff(fields, kwargs, obj) -> list[str]:
    bad = []
    for f in fields:
        if isinstance(f, list):
            for n, s in f:
                got = getattr(obj, n, _MISSING)
                exp = kwargs[n]
                if got is _MISSING or isinstance(got, (bytes, str)) or not hasattr(got, '__len__') or len(got) != len(exp):
                    bad.append(n)
                    continue
                kind = classify(s)
                if not all(_eq(kind, x, y) for x, y in zip(exp, got)):
                    bad.append(n)
        else:
            n, s = f
            got = getattr(obj, n, _MISSING)
            if got is _MISSING or not _eq(classify(s), kwargs[n], got):
                bad.append(n)
    return bad


_MISSING = object()


def diff(cls_or_fields, kwargs, obj) -> list[str]:
    return _diff(_fields_of(cls_or_fields), kwargs, obj)


def _rebuild_value(kind: Kind, v):
    t = kind.tag
    if t in ('addr', 'addr_pbt'):
        return type(v)(bytes(v.address_bytes), v.address_type)
    if t == 'coding_format':
        return type(v)(v.codec_id, v.company_id, v.vendor_specific_codec_id)
    if t == 'nested':
        return type(v)(**_rebuild_kwargs(kind.sub, v))
    return v


def _rebuild_kwargs(fields, obj) -> dict:
    out = {}
    for f in fields:
        if isinstance(f, list):
            for n, s in f:
                kind = classify(s)
                out[n] = [_rebuild_value(kind, x) for x in getattr(obj, n)]
        else:
            out[f[0]] = _rebuild_value(classify(f[1]), getattr(obj, f[0]))
    return out


def rebuild_kwargs(cls_or_fields, obj) -> dict:
    return _rebuild_kwargs(_fields_of(cls_or_fields), obj)


# ---------------------------------------------------------------------------
# the enumerator
# ---------------------------------------------------------------------------
class _Plan:
    def __init__(self, fields, counts, overrides, nested_k):
        self.fields = fields
        self.counts = tuple(counts)
        self.entries = []  # ('s', name, kind) | ('g', [(name, kind), ...])
        self.choices: dict[str, list] = {}
        overrides = overrides or {}
        for f in fields:
            if isinstance(f, list):
                subs = []
                for sf in f:
                    if isinstance(sf, list):
                        raise NotImplementedError('repeated group inside a repeated group')
                    subs.append((sf[0], classify(sf[1])))
                self.entries.append(('g', subs))
                named = subs
            else:
                self.entries.append(('s', f[0], classify(f[1])))
                named = [(f[0], classify(f[1]))]
            for n, kind in named:
                if n in self.choices:
                    raise ValueError(f'duplicate field name {n}')
                if n in overrides:
                    self.choices[n] = [('given', v) for v in overrides[n]]
                else:
                    self.choices[n] = _choices(kind, nested_k, self.counts)
                if not self.choices[n]:
                    raise ValueError(f'empty domain for field {n} ({kind.label})')
        self.groups = [e for e in self.entries if e[0] == 'g']

    # every deviation list with exactly / at most k deviations, ascending
    def devs(self, k: int) -> Iterator[list]:
        base = self.counts[0]
        alts = [c for c in self.counts[1:]]
        for total in range(k + 1):
            for ncount in range(min(total, len(self.groups)) + 1):
                for gsel in itertools.combinations(range(len(self.groups)), ncount):
                    for cvals in itertools.product(alts, repeat=ncount):
                        cnt = {gi: base for gi in range(len(self.groups))}
                        cdev = []
                        for gi, c in zip(gsel, cvals):
                            cnt[gi] = c
                            cdev.append(['#', gi, c])
                        pos = self._positions(cnt)
                        r = total - ncount
                        for sel in itertools.combinations(pos, r):
                            ranges = [[i for i in range(n) if i != b] for (_, _, b, n) in sel]
                            for idxs in itertools.product(*ranges):
                                yield cdev + [[name, item, i] for (name, item, _, _), i in zip(sel, idxs)]

    def _positions(self, cnt):
        pos = []
        gi = 0
        for e in self.entries:
            if e[0] == 's':
                pos.append((e[1], -1, 0, len(self.choices[e[1]])))
            else:
                for j in range(cnt[gi]):
                    for n, _ in e[1]:
                        m = len(self.choices[n])
                        pos.append((n, j, j % m, m))
                gi += 1
        return pos

    def template(self, dev) -> dict:
        cnt = {gi: self.counts[0] for gi in range(len(self.groups))}
        chosen = {}
        for d in dev:
            if d[0] == '#':
                cnt[d[1]] = d[2]
            else:
                chosen[(d[0], d[1])] = d[2]
        tmpl = {}
        gi = 0
        for e in self.entries:
            if e[0] == 's':
                tmpl[e[1]] = self.choices[e[1]][chosen.get((e[1], -1), 0)]
            else:
                for n, _ in e[1]:
                    ch = self.choices[n]
                    tmpl[n] = [ch[chosen.get((n, j), j % len(ch))] for j in range(cnt[gi])]
                gi += 1
        return tmpl

    # -- materialising a template into real keyword arguments -----------------
    def instantiate(self, tmpl, fill) -> dict:
        out = {}
        prev = None  # (kind, value) of the field encoded just before
        for e in self.entries:
            if e[0] == 's':
                v = _inst(e[2], tmpl[e[1]], prev, fill)
                out[e[1]] = v
                prev = (e[2], v)
            else:
                n_items = len(tmpl[e[1][0][0]])
                for n, _ in e[1]:
                    out[n] = []
                prev = (_COUNT_BYTE, n_items & 0xFF)  # the byte before item 0 is the item count
                for j in range(n_items):
                    for n, kind in e[1]:
                        v = _inst(kind, tmpl[n][j], prev, fill)
                        out[n].append(v)
                        prev = (kind, v)
        return out

    def materialise(self, tmpl, budget, var_max, rest_max):
        used = []

        def fill0(tag):
            used.append(tag)
            return 0

        kw = self.instantiate(tmpl, fill0)
        size0 = len(_ref_encode(self.fields, kw))
        if budget is not None and size0 > budget:
            return None
        if not used:
            return kw
        state = {'left': (budget - size0) if budget is not None else None}

        def fill(tag):
            if state['left'] is None:
                return var_max if tag == 'var' else rest_max
            n = state['left'] if tag == 'rest' else min(255, state['left'])
            state['left'] -= n
            return n

        return self.instantiate(tmpl, fill)


def _inst(kind: Kind, t, prev, fill):
    if isinstance(t, _Max):
        return pattern(fill(t.tag))
    if isinstance(t, _Nested):
        return t.cls(**t.plan.instantiate(t.tmpl, fill))
    if isinstance(t, tuple) and t:
        if t[0] == 'given':
            return t[1]
        if t[0] == 'pattern':
            return pattern(t[1])
        if t[0] == 'probed':
            return _probe(kind)[t[1]][0]
        if t[0] == 'addrbytes':
            if kind.tag == 'addr':
                return kind.cls(t[1], kind.aux)
            hci = _hci()
            if prev is None:
                atype = hci.AddressType.RANDOM_DEVICE
            else:
                atype = hci.AddressType(_enc(prev[0], prev[1])[-1])
            return kind.cls(t[1], atype)
    return t


_PLAN_CACHE: dict = {}


def _plan(cls_or_fields, counts, overrides, nested_k) -> _Plan:
    fields = _fields_of(cls_or_fields)
    if overrides:
        return _Plan(fields, counts, overrides, nested_k)
    key = (id(fields), tuple(counts), nested_k)
    p = _PLAN_CACHE.get(key)
    if p is None or p.fields is not fields:
        p = _Plan(fields, counts, None, nested_k)
        _PLAN_CACHE[key] = p
    return p


def enumerate_kwargs(cls_or_fields, k, *, counts=(1, 0, 2, 3), budget=None, overrides=None, nested_k=1,
                     var_max=255, rest_max=64):
    plan = _plan(cls_or_fields, counts, overrides, nested_k)
    for dev in plan.devs(k):
        kw = plan.materialise(plan.template(dev), budget, var_max, rest_max)
        if kw is not None:
            yield kw, dev


def build(cls_or_fields, dev, *, counts=(1, 0, 2, 3), budget=None, overrides=None, nested_k=1, var_max=255,
          rest_max=64):
    plan = _plan(cls_or_fields, counts, overrides, nested_k)
    return plan.materialise(plan.template([list(d) for d in dev]), budget, var_max, rest_max)


def count_cases(cls_or_fields, k, **opts):
    counts = opts.get('counts', (1, 0, 2, 3))
    plan = _plan(cls_or_fields, counts, opts.get('overrides'), opts.get('nested_k', 1))
    ok = over = 0
    for dev in plan.devs(k):
        if plan.materialise(plan.template(dev), opts.get('budget'), opts.get('var_max', 255), opts.get('rest_max', 64)) is None:
            over += 1
        else:
            ok += 1
    return ok, over


def probed_specs(cls_or_fields) -> list:
    out = []

    def walk(fields, prefix=''):
        for f in fields:
            if isinstance(f, list):
                walk(f, prefix)
            else:
                kind = classify(f[1])
                if kind.tag == 'probed':
                    out.append((prefix + f[0], kind.label))
                elif kind.tag == 'nested':
                    walk(kind.sub, prefix + f[0] + '.')

    walk(_fields_of(cls_or_fields))
    return out


def domain_size(cls_or_fields, *, counts=(1, 0, 2, 3), overrides=None, nested_k=1) -> dict:
    plan = _plan(cls_or_fields, counts, overrides, nested_k)
    return {n: len(c) for n, c in plan.choices.items()}
