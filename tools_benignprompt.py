#!/venv/bin/python
"""Prints the prompt for an independent sub-agent that produces PROPERTY-PRESERVING changes for property <ID>
(used to test that the checks raise no alarm on code where the property still holds) and creates its worktree."""
import json, sys, subprocess, os
pid = sys.argv[1]; tag = sys.argv[2] if len(sys.argv) > 2 else 'a'
wt = f'/tmp/ben_{pid}_{tag}'
if not os.path.exists(wt):
    subprocess.check_call(['git', '-C', '/repo', 'worktree', 'add', '-q', '--detach', wt, 'HEAD'])
for l in open('/verif/properties.jsonl'):
    p = json.loads(l)
    if p['id'] == pid:
        break
EXTRA = ''
if tag != 'a':
    EXTRA = ('This is a second round: earlier rounds already tried renaming private attributes, swapping list/deque/dict, another legal error code, stricter validation and changed logging. Prefer DIFFERENT kinds now, for example: changing WHEN things happen without changing what happens (deferring a delivery or a callback with loop.call_soon, batching several internal deliveries into one loop turn, an extra await/yield, resolving a future a tick earlier or later, emitting an event before instead of after an internal table update when no listener can tell); changing object identity or lifetime (returning a fresh object instead of a cached one, copying a buffer instead of slicing it, lazily creating a table on first use, dropping an empty table entry instead of keeping it); replacing an algorithm by an equivalent one (a loop by arithmetic, two passes by one, recursion by iteration); moving responsibility between layers (a check done in the caller instead of the callee) with the same outcome; making a synchronous internal helper asynchronous or vice versa behind an unchanged public API. Still: the property must provably hold and the whole suite must pass.\n')
print(f"""You are helping to test a verification harness for the Python Bluetooth stack google/bumble. You have your own scratch git worktree of the repository at {wt} (work ONLY there; never touch /repo or /verif, and do not read anything under /verif). Interpreter: /venv/bin/python (run things as `cd {wt} && PYTHONPATH={wt} /venv/bin/python ...`; the test suite is `cd {wt} && PYTHONPATH={wt} /venv/bin/python -m pytest -q -p no:cacheprovider -n 8 tests`, 940 tests, all pass now; check `python -c "import bumble; print(bumble.__file__)"` really points into {wt}). No network. NEVER use `git stash` (the stash is shared by all worktrees of the repository and other agents work in sibling worktrees): to get back to the clean tree use `git diff > out/patchN.diff` then `git checkout -- .`, and `git apply out/patchN.diff` to re-apply.

A property of the code base (this text is all you get):

TITLE: {p['title']}
STATEMENT: {p['statement']}
QUANTIFIED OVER: {p['quantifier']['text']}
CODE AREA: {', '.join(p['anchors']['files'])}

Task: produce FOUR different, realistic changes to bumble's source (under {wt}/bumble), in the code area of this property, each of which changes the code in a way a maintainer might plausibly commit but under which THE PROPERTY STILL HOLDS, the public API is unchanged, the code imports and the ENTIRE existing test suite still passes (run it). They must NOT be whitespace/comment-only. Make them varied; good kinds of change:
  - refactorings of internals: rename a private attribute / private method / local helper, split or inline a function, replace a data structure by an equivalent one (dict <-> OrderedDict, list <-> deque, set <-> dict keys), precompute or cache something safely, reorder statements that are independent;
  - legitimate alternative behaviour the property does not forbid: a different (still legal) error code or exception message for a refused or malformed input, stricter validation of MALFORMED input (rejecting what was previously tolerated garbage), a different log level or text, a different but valid choice of identifier / handle / CID allocation order, returning credits or acknowledgements a little earlier or later within what the protocol allows, an extra `await asyncio.sleep(0)` (yield to the event loop) in an async path, sending two independent messages in the other order, a different internal timeout value for something that never fires in normal operation;
  - robustness improvements: an extra guard for a state that cannot occur, catching and logging an exception where it used to propagate out of a callback for hostile input.
{EXTRA}Each change should be moderately sized (3-40 lines) and touch the mechanisms the property is about (not unrelated files). At least one of the four should be a behaviour-visible-but-legal change (second group), at least one an internal-representation refactoring that renames or restructures private state (first group).

For each change i in (1..4) deliver, in {wt}/out/ (create it):
  - patch{{i}}.diff  : `git diff` of the change against the worktree's HEAD (apply one change at a time; `git checkout -- .` between them so each diff is independent)
  - note{{i}}.txt    : 3-8 lines: what the change does, and the ARGUMENT why every clause of the property still holds with it; plus the pytest summary line showing the full suite passed with the change
Leave the worktree with NO change applied at the end (git checkout -- .), only the files in out/. Your final message: a short summary of the four changes.""")
