#!/bin/sh
# validates MANIFEST.json and every evidence file against the schemas
python3-vt - <<'PY'
import json, jsonschema, glob, sys
ok = True
m = json.load(open('/verif/MANIFEST.json'))
jsonschema.validate(m, json.load(open('/root/.vp/MANIFEST.schema.json')))
es = json.load(open('/root/.vp/EVIDENCE.schema.json'))
for c in m['checks']:
    f = c['evidence_file']
    try:
        e = json.load(open(f))
        jsonschema.validate(e, es)
        assert e['level'] == c['level_claimed']['category'], (e['level'], c['level_claimed']['category'])
        print('ok ', c['property_id'], e['tier'], e['level'], 'eval=%s distinct=%s viol=%s wall=%ss' % (e['coverage'].get('evaluations'), e['coverage'].get('distinct_nontrivial'), e.get('violations'), e['wall_s']))
    except Exception as ex:
        ok = False
        print('BAD', c['property_id'], str(ex)[:200])
sys.exit(0 if ok else 1)
PY
