#!/venv/bin/python
"""Prints the prompt for an independent mutation sub-agent for property <ID> and creates its worktree."""
import json, sys, subprocess, os
pid = sys.argv[1]; tag = sys.argv[2] if len(sys.argv) > 2 else 'a'
wt = f'/tmp/mut_{pid}_{tag}'
if not os.path.exists(wt):
    subprocess.check_call(['git', '-C', '/repo', 'worktree', 'add', '-q', '--detach', wt, 'HEAD'])
for l in open('/verif/properties.jsonl'):
    p = json.loads(l)
    if p['id'] == pid:
        break
import glob
taken = []
for d in sorted(glob.glob(f'/verif/seeded/{pid}-*/note.txt')):
    first = ' '.join(open(d).read().split())[:260]
    taken.append('- ' + os.path.basename(os.path.dirname(d)) + ': ' + first)
TAKEN = ''
if taken and tag != 'a':
    TAKEN = ('\nIdeas ALREADY TAKEN by earlier rounds (do something different: another mechanism, another clause of the property, another file if possible):\n' + '\n'.join(taken) + '\n')
print(f"""You are testing how well a property of the Python Bluetooth stack google/bumble is protected. You have your own scratch git worktree of the repository at {wt} (work ONLY there; never touch /repo or /verif, and do not read anything under /verif). Interpreter: /venv/bin/python (run things as `cd {wt} && PYTHONPATH={wt} /venv/bin/python ...`; the test suite is `cd {wt} && PYTHONPATH={wt} /venv/bin/python -m pytest -q -p no:cacheprovider -n 8 tests`, 940 tests, all pass now; check `python -c "import bumble; print(bumble.__file__)"` really points into {wt}). No network. NEVER use `git stash` (the stash is shared by all worktrees of the repository and other agents work in sibling worktrees): to get back to the clean tree use `git diff > out/patchN.diff` then `git checkout -- .`, and `git apply out/patchN.diff` to re-apply.

The property (this text is all you get):

TITLE: {p['title']}
STATEMENT: {p['statement']}
QUANTIFIED OVER: {p['quantifier']['text']}
CODE AREA: {', '.join(p['anchors']['files'])}

{TAKEN}
Task: produce TWO different, realistic changes to bumble's source (under {wt}/bumble) each of which BREAKS this property while the code still imports and the ENTIRE existing test suite still passes (run it to be sure). Think of the kind of regression a hurried maintainer could introduce: shared mutable state, cursor/offset/boundary arithmetic, a table not updated on one path, a wrong comparison, a check dropped on one branch, state published before it is complete. Each change must need something SPECIFIC to manifest — a particular interleaving or message delay, a fault at a particular point, a multi-step sequence of operations, an unusual but legal input or configuration, or two cooperating sites that each look fine alone — NOT something ordinary use would expose at once (and not something the existing tests catch). Keep each change small (1-15 lines), and make the two changes touch different mechanisms / clauses of the property.

For each change i in (1, 2) deliver, in {wt}/out/ (create it):
  - patch{{i}}.diff  : `git diff` of the change against the worktree's HEAD (apply one change at a time; `git checkout -- .` between them so each diff is independent)
  - demo{{i}}.py     : a small standalone program (public bumble API, asyncio if needed) that exits 0 and prints PASS on the unmodified tree and exits 1 and prints FAIL with the change applied, demonstrating the property violation
  - note{{i}}.txt    : 3-6 lines: which clause of the property it breaks, what it needs in order to manifest, and confirmation that the full test suite passed with the change (paste the pytest summary line)
Leave the worktree with NO change applied at the end (git checkout -- .), only the files in out/. Your final message: a short summary of the two changes.""")
