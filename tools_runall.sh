#!/bin/sh
# runs every claimed check's quick (or $1) tier sequentially; prints one line each
tier=${1:-quick}
cd /verif
for p in $(/venv/bin/python -c "import json; print(' '.join(c['property_id'] for c in json.load(open('MANIFEST.json'))['checks']))"); do
  s=$(date +%s)
  ./check $p --tier $tier > .work/run_$p.log 2>&1
  rc=$?
  e=$(date +%s)
  echo "$p rc=$rc $((e-s))s known=$(grep -c '^KNOWN-FINDING' .work/run_$p.log) viol=$(grep -c '^VIOLATION' .work/run_$p.log)"
done
