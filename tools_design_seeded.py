#!/venv/bin/python
"""Regenerates the seeded-changes table of DESIGN.md §8.5 (between the BEGIN/END markers) from seeded/*/meta.json."""
import glob, json, re
p = '/verif/DESIGN.md'
s = open(p).read()
rows = []
for d in sorted(glob.glob('/verif/seeded/*/meta.json')):
    m = json.load(open(d))
    det = m.get('detected_by', {})
    parts = []
    for c, v in det.items():
        r = 'caught' if v['exit'] == 1 else ('harness error' if v['exit'] == 2 else 'not caught')
        parts.append(f"{c} ({v['tier']}): {r}" + (f", {v['violations']} signatures" if v['exit'] == 1 else ''))
    rows.append(f"| {m['name']} | {m['property']} | {'; '.join(parts)} |")
table = "| seeded change | breaks | result with the current checks |\n|---|---|---|\n" + "\n".join(rows) + "\n"
b, e = '<!-- BEGIN SEEDED TABLE -->', '<!-- END SEEDED TABLE -->'
if b in s:
    s = s[:s.index(b) + len(b)] + "\n" + table + s[s.index(e):]
else:
    # first time: replace the old table
    i = s.index('| seeded change | result with the current checks |')
    j = s.index('Initially missed and then covered')
    s = s[:i] + b + "\n" + table + e + "\n\n" + s[j:]
open(p, 'w').write(s)
print(len(rows), 'seeded changes')
