#!/bin/sh
# runs every claimed check's quick tier under several VERIF_SEED values; any non-zero exit is printed
cd /verif
for seed in ${@:-2 3}; do
  for p in $(/venv/bin/python -c "import json; print(' '.join(c['property_id'] for c in json.load(open('MANIFEST.json'))['checks']))"); do
    VERIF_SEED=$seed ./check $p --tier quick > .work/sweep_${p}_$seed.log 2>&1
    rc=$?
    echo "seed=$seed $p rc=$rc viol=$(grep -c '^VIOLATION' .work/sweep_${p}_$seed.log)"
  done
done
