#!/venv/bin/python
"""tools_seed.py <PROPERTY> <dir-with-patchN.diff/demoN.py/noteN.txt> <N> <name> [--tier quick|thorough] [--checks C04,C16]

Confirms a sub-agent's property-breaking change in a fresh scratch worktree:
  1. patch applies to /repo HEAD, bumble imports
  2. the demonstration passes on /repo and fails with the patch
  3. the full existing test suite passes with the patch
  4. runs our check(s) against the patched tree and records whether they detect it
Keeps it as /verif/seeded/<name>/ (patch.diff, demo.py, note.txt, meta.json). Removes the worktree.
"""
import json
import os
import shutil
import subprocess
import sys
import time

prop, src, n, name = sys.argv[1:5]
tier = 'quick'
checks = [prop]
args = sys.argv[5:]
while args:
    a = args.pop(0)
    if a == '--tier':
        tier = args.pop(0)
    elif a == '--checks':
        checks = args.pop(0).split(',')
patch = os.path.join(src, f'patch{n}.diff')
demo = os.path.join(src, f'demo{n}.py')
note = os.path.join(src, f'note{n}.txt')
if not os.path.exists(patch) and os.path.exists(os.path.join(src, 'patch.diff')):
    # re-confirming an entry already filed under seeded/: copy it aside first (the entry is rewritten below)
    import tempfile

    tmp = tempfile.mkdtemp()
    for a, b in (('patch.diff', 'patch.diff'), ('demo.py', 'demo.py'), ('note.txt', 'note.txt')):
        if os.path.exists(os.path.join(src, a)):
            shutil.copy(os.path.join(src, a), os.path.join(tmp, b))
    patch, demo, note = (os.path.join(tmp, x) for x in ('patch.diff', 'demo.py', 'note.txt'))
wt = f'/tmp/seedchk_{name}'
meta = {'property': prop, 'name': name, 'ran': [], 'time': time.strftime('%Y-%m-%dT%H:%M:%SZ', time.gmtime())}


def sh(cmd, **kw):
    meta['ran'].append(cmd if isinstance(cmd, str) else ' '.join(cmd))
    return subprocess.run(cmd, shell=isinstance(cmd, str), capture_output=True, text=True, **kw)


subprocess.run(['git', '-C', '/repo', 'worktree', 'remove', '--force', wt], capture_output=True)
subprocess.check_call(['git', '-C', '/repo', 'worktree', 'add', '-q', '--detach', wt, 'HEAD'])
ok = True
try:
    meta['repo_head'] = subprocess.check_output(['git', '-C', '/repo', 'rev-parse', '--short', 'HEAD'], text=True).strip()
    r = sh(f'git -C {wt} apply {patch}')
    if r.returncode != 0:
        print('PATCH DOES NOT APPLY', r.stderr)
        sys.exit(3)
    env_p = dict(os.environ, PYTHONPATH=wt)
    env_o = dict(os.environ, PYTHONPATH='/repo')
    r0 = sh(f'cd /repo && /venv/bin/python {demo}', env=env_o, timeout=600)
    # (run from <worktree>/out/: some demonstrations put their own '..' first on sys.path)
    r1 = sh(f'mkdir -p {wt}/out && cp {demo} {wt}/out/_demo.py && cd {wt} && /venv/bin/python out/_demo.py', env=env_p, timeout=600)
    meta['demo_on_repo'] = r0.returncode
    meta['demo_on_patched'] = r1.returncode
    print(f'demo: unmodified exit {r0.returncode}, patched exit {r1.returncode}')
    if r0.returncode != 0 or r1.returncode == 0:
        print('DEMO DOES NOT DISCRIMINATE', (r0.stdout + r0.stderr)[-400:], (r1.stdout + r1.stderr)[-400:])
        ok = False
    rt = sh(f'cd {wt} && /venv/bin/python -m pytest -q -p no:cacheprovider -n 8 tests 2>&1 | tail -3', env=env_p, timeout=3000)
    meta['test_suite_tail'] = rt.stdout.strip().splitlines()[-1] if rt.stdout.strip() else ''
    print('tests:', meta['test_suite_tail'])
    if ' failed' in meta['test_suite_tail'] or 'error' in meta['test_suite_tail'].lower() or 'passed' not in meta['test_suite_tail']:
        print('TEST SUITE DOES NOT PASS WITH THE PATCH')
        ok = False
    meta['detected_by'] = {}
    for c in checks:
        t0 = time.time()
        rc = sh(f'cd /verif && VERIF_REPO={wt} ./check {c} --tier {tier}', timeout=7200)
        lines = [l for l in rc.stdout.splitlines() if l.startswith('VIOLATION') or l.strip().startswith('violation:')]
        meta['detected_by'][c] = {'tier': tier, 'exit': rc.returncode, 'violations': len([l for l in lines if l.startswith('VIOLATION')]), 'first': [l.strip()[:300] for l in lines if l.strip().startswith('violation:')][:3], 'wall_s': round(time.time() - t0, 1)}
        print(f'check {c} ({tier}): exit {rc.returncode}, {meta["detected_by"][c]["violations"]} VIOLATION lines, {meta["detected_by"][c]["wall_s"]}s')
        for l in meta['detected_by'][c]['first']:
            print('   ', l)
        if rc.returncode == 2:
            print(rc.stdout[-800:], rc.stderr[-800:])
    meta['confirmed'] = ok
    if ok:
        d = f'/verif/seeded/{name}'
        os.makedirs(d, exist_ok=True)
        shutil.copy(patch, os.path.join(d, 'patch.diff'))
        shutil.copy(demo, os.path.join(d, 'demo.py'))
        if os.path.exists(note):
            shutil.copy(note, os.path.join(d, 'note.txt'))
            meta['needs_to_manifest'] = open(note).read().strip()[:1500]
        with open(os.path.join(d, 'meta.json'), 'w') as f:
            json.dump(meta, f, indent=1)
        print('kept as', d)
finally:
    subprocess.run(['git', '-C', '/repo', 'worktree', 'remove', '--force', wt], capture_output=True)
    shutil.rmtree('/verif/.work/alt/' + os.path.basename(wt), ignore_errors=True)
