"""What MANIFEST.json claims, per property.  Edited by hand; MANIFEST.json is generated."""

ENGINES = [
    {'name': 'vloop', 'path': 'vp/vloop.py', 'serves_properties': [], 'kind_free_text': 'virtual asyncio loop with explicit, classified ready-queue (order-preserving-delay scheduler seam)'},
    {'name': 'explore', 'path': 'vp/explore.py', 'serves_properties': [], 'kind_free_text': 'deviation-bounded stateless schedule explorer (replay prefix on fresh objects, divergence = harness error)'},
    {'name': 'enumerate', 'path': 'vp/props/*.py', 'serves_properties': ['C02'], 'kind_free_text': 'bounded-exhaustive enumeration of inputs/histories against a Python reference model, executed on the real code'},
]

NOTES = ('All checks drive the real bumble code imported from /repo\'s working tree; no model in another language. '
         'Exit 2 = harness error (never a verdict). known_findings.json lists recorded defects by exact signature.')

CLAIMS = {
    'C02': {
        'level': 'model_checking',
        'engine': 'enumerate',
        'technique': 'explicit-state exhaustive enumeration of (packet stream x chunking x fault point) on the real framers vs. a reference framer',
        'text': 'Every stream over a 19-packet alphabet (all 5 HCI types x zero/1/max 8- and 16-bit bodies) up to length 2 (quick) / 3 (thorough) is cut in every way (all compositions for short streams; every single split, all pairs/triples of near-boundary splits, uniform sizes for long ones) and fed to the real PacketParser, PacketReader, AsyncPacketReader and USB splitters; delivered packets must equal the generator list, none early. Invalid type bytes at every packet boundary; server hand-over with the first client cut at every byte, on the real tcp/unix/ws server protocol objects.',
        'note': 'Reference model = the generator\'s packet list. Real sockets are replaced by the asyncio protocol callbacks. Body contents follow one pattern (contains all type bytes).',
    },
}

NOT_CLAIMED = {}
