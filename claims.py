"""What MANIFEST.json claims, per property.  Edited by hand; MANIFEST.json is generated."""

ENGINES = [
    {'name': 'vloop', 'path': 'vp/vloop.py', 'serves_properties': ['C03'], 'kind_free_text': 'virtual asyncio loop with explicit, classified ready-queue (order-preserving-delay scheduler seam)'},
    {'name': 'explore', 'path': 'vp/explore.py', 'serves_properties': ['C03'], 'kind_free_text': 'deviation-bounded stateless schedule explorer (replay prefix on fresh objects, divergence = harness error)'},
    {'name': 'enumerate', 'path': 'vp/props/*.py', 'serves_properties': ['C02', 'C04'], 'kind_free_text': 'bounded-exhaustive enumeration of inputs/histories against a Python reference model, executed on the real code'},
]

NOTES = ('All checks drive the real bumble code imported from /repo\'s working tree; no model in another language. '
         'Exit 2 = harness error (never a verdict). known_findings.json lists recorded defects by exact signature.')

CLAIMS = {
    'C02': {
        'level': 'model_checking',
        'engine': 'enumerate',
        'technique': 'explicit-state exhaustive enumeration of (packet stream x chunking x fault point) on the real framers vs. a reference framer',
        'text': 'Every stream over a 19-packet alphabet (all 5 HCI types x zero/1/max 8- and 16-bit bodies) up to length 2 (quick) / 3 (thorough) is cut in every way (all compositions for short streams; every single split, all pairs/triples of near-boundary splits, uniform sizes for long ones) and fed to the real PacketParser, PacketReader, AsyncPacketReader and USB splitters; delivered packets must equal the generator list, none early. Invalid type bytes at every packet boundary; server hand-over with the first client cut at every byte, on the real tcp/unix/ws server protocol objects.',
        'note': 'Reference model = the generator\'s packet list. Real sockets are replaced by the asyncio protocol callbacks. Body contents follow one pattern (contains all type bytes).',
    },
}

CLAIMS['C04'] = {
    'level': 'model_checking',
    'engine': 'enumerate',
    'technique': 'explicit-state BFS over operation histories of the real DataPacketQueue / Host / FlowControlAsyncPipe with canonical-state dedup, lock-step Python reference model, invariants on every transition',
    'text': 'BFS to depth 7 (quick) / 9 (thorough) over enqueue/completion-report(0,1,2,exact,exact+1; known and unknown handles)/flush/drain histories for buffer counts 1..3 and 2-3 connections on the real DataPacketQueue, the same alphabet injected as HCI events into a real Host, and BFS over write/pause/resume/loop-step/sink-drain histories of the real FlowControlAsyncPipe; after every transition: credits never exceeded, each packet sent exactly once in per-connection order, nothing waits while a buffer is free, drain() done when nothing is queued or in flight; every distinct state is then run to completion.',
    'note': 'Payload contents dropped from the canonical key (the class never reads them). After a controller over-report only the weaker clauses are asserted. Early drain() returns are counted, not flagged.',
}

CLAIMS['C03'] = {
    'level': 'exploration',
    'engine': 'explore',
    'technique': 'bounded-exhaustive enumeration of command packets x link situations on the real Host/Controller pair, deviation-bounded exhaustive schedule exploration of concurrent callers, and fault-point enumeration over every message boundary of pending procedures',
    'text': 'reply: every registered HCI command class (389 opcodes incl. vendor and unregistered ones) with parameter blocks varied byte-wise and handle/address fields aimed at live and dead objects, in 4 link situations (fresh, LE-connected, classic-connected, controller without link): exactly one Command Complete/Status with that opcode, caller completes, a later command is answered. serialise: 6 scripts of 2-5 concurrent callers on one/both hosts (also while an LE connection is being established), all order-preserving host<->controller/link delivery delays up to 1 (quick) / 3 (thorough) deviations: never two commands outstanding, every response matches the outstanding opcode, every caller finishes. procedure: 10 pending procedures x situations x {peer disconnects, local disconnect, peer vanishes} injected before every message delivery: an accepted procedure is concluded by exactly one completion event.',
    'note': 'Only the virtual controller is in scope. Commands are well-formed for their class. Response timeouts and caller cancellation are outside the stated space and not explored. 12 recorded findings (no link-loss detection; CIS reject/teardown not implemented) are listed in known_findings.json.',
}

NOT_CLAIMED = {}
