"""What MANIFEST.json claims, per property.  Edited by hand; MANIFEST.json is generated."""

ENGINES = [
    {'name': 'vloop', 'path': 'vp/vloop.py', 'serves_properties': ['C03'], 'kind_free_text': 'virtual asyncio loop with explicit, classified ready-queue (order-preserving-delay scheduler seam)'},
    {'name': 'explore', 'path': 'vp/explore.py', 'serves_properties': ['C03', 'C06', 'C07', 'C08', 'C09', 'C13', 'C16', 'C19', 'C20'], 'kind_free_text': 'deviation-bounded stateless schedule explorer (replay prefix on fresh objects, divergence = harness error)'},
    {'name': 'enumerate', 'path': 'vp/props/*.py', 'serves_properties': ['C01', 'C02', 'C04', 'C05', 'C10', 'C11', 'C12', 'C14', 'C15', 'C17', 'C18'], 'kind_free_text': 'bounded-exhaustive enumeration of inputs/histories against a Python reference model, executed on the real code'},
]

NOTES = ('All checks drive the real bumble code imported from /repo\'s working tree; no model in another language. '
         'Exit 2 = harness error (never a verdict). known_findings.json lists recorded defects by exact signature.')

CLAIMS = {
    'C02': {
        'level': 'model_checking',
        'engine': 'enumerate',
        'technique': 'explicit-state exhaustive enumeration of (packet stream x chunking x fault point) on the real framers vs. a reference framer',
        'text': 'Every stream over a 19-packet alphabet (all 5 HCI types x zero/1/max 8- and 16-bit bodies) up to length 2 (quick) / 3 (thorough) is cut in every way (all compositions for short streams; every single split, all pairs/triples of near-boundary splits, uniform sizes for long ones) and fed to the real PacketParser, PacketReader, AsyncPacketReader and USB splitters; delivered packets must equal the generator list, none early. Invalid type bytes at every packet boundary; server hand-over with the first client cut at every byte, on the real tcp/unix/ws server protocol objects.',
        'note': 'Reference model = the generator\'s packet list. Real sockets are replaced by the asyncio protocol callbacks. Body contents follow one pattern (contains all type bytes).',
    },
}

CLAIMS['C04'] = {
    'level': 'model_checking',
    'engine': 'enumerate',
    'technique': 'explicit-state BFS over operation histories of the real DataPacketQueue / Host / FlowControlAsyncPipe with canonical-state dedup, lock-step Python reference model, invariants on every transition',
    'text': 'BFS to depth 7 (quick) / 9 (thorough) over enqueue/completion-report(0,1,2,exact,exact+1; known and unknown handles)/flush/drain histories for buffer counts 1..3 and 2-3 connections on the real DataPacketQueue, the same alphabet injected as HCI events into a real Host, and BFS over write/pause/resume/loop-step/sink-drain histories of the real FlowControlAsyncPipe; after every transition: credits never exceeded, each packet sent exactly once in per-connection order, nothing waits while a buffer is free, drain() done when nothing is queued or in flight; every distinct state is then run to completion.',
    'note': 'Payload contents dropped from the canonical key (the class never reads them). After a controller over-report only the weaker clauses are asserted. Early drain() returns are counted, not flagged.',
}

CLAIMS['C03'] = {
    'level': 'exploration',
    'engine': 'explore',
    'technique': 'bounded-exhaustive enumeration of command packets x link situations on the real Host/Controller pair, deviation-bounded exhaustive schedule exploration of concurrent callers, and fault-point enumeration over every message boundary of pending procedures',
    'text': 'reply: every registered HCI command class (389 opcodes incl. vendor and unregistered ones) with parameter blocks varied byte-wise and handle/address fields aimed at live and dead objects, in 4 link situations (fresh, LE-connected, classic-connected, controller without link): exactly one Command Complete/Status with that opcode, caller completes, a later command is answered. serialise: 6 scripts of 2-5 concurrent callers on one/both hosts (also while an LE connection is being established), all order-preserving host<->controller/link delivery delays up to 1 (quick) / 3 (thorough) deviations: never two commands outstanding, every response matches the outstanding opcode, every caller finishes. procedure: 10 pending procedures x situations x {peer disconnects, local disconnect, peer vanishes} injected before every message delivery: an accepted procedure is concluded by exactly one completion event.',
    'note': 'Only the virtual controller is in scope. Commands are well-formed for their class. Response timeouts and caller cancellation are outside the stated space and not explored. 12 recorded findings (no link-loss detection; CIS reject/teardown not implemented) are listed in known_findings.json.',
}

CLAIMS['C01'] = {
    'level': 'exploration',
    'engine': 'enumerate',
    'technique': 'bounded-exhaustive enumeration of field-value assignments (<=k fields off their simplest boundary value) over every registered HCI class, both construction directions, against an independent reference encoder',
    'text': 'All registered command/event/LE-sub-event/vendor classes (counted at run time, 292) and their return-parameter classes, every field at boundary values per width/sign/endianness/array/length-prefix kind, repeated groups with 0..3 items, <=2 (quick) / <=3 (thorough) fields off default; ACL/SCO/ISO header grids; unregistered opcodes/event codes/sub-event codes/vendor bytes with 3 parameter lengths; Command Complete in SUCCESS, long error, status-only and prefix forms. Oracles: fields->bytes->parse gives the same class and values; parsed->rebuilt from field values->bytes identical; wire format equals an independent encoder of the declared spec; PacketParser frames the bytes as one packet.',
    'note': 'A per-class layout mistake that is symmetric in encoder and parser is only visible where the independent reference covers it (field codec and data-packet headers). Mid-range values are not visited.',
}
CLAIMS['C14'] = {
    'level': 'exploration',
    'engine': 'enumerate',
    'technique': 'bounded-exhaustive differential enumeration of both crypto back ends against an independent reference implementation, incl. exhaustive model check of the built-in EC arithmetic on small prime-order curves',
    'text': 'Spec vectors (FIPS-197, RFC 4493, Core Vol 3 Part H App. D, P-256 debug keys); AES e over structured key/block sets hitting every table entry; AES-CMAC for every length 0..80 (thorough 0..160 + larger boundaries) x 9 keys; every SMP toolbox function with <=2/3 arguments off the spec vector; P-256 public-key derivation, ECDH vs reference and symmetry within/across back ends; 91 invalid peer keys x 9 scalars must be rejected by both back ends; the real built-in curve code instantiated on tiny prime-order curves: ALL coordinate pairs of F_p^2 x ALL scalars (p=23, 97; thorough p=251) vs a brute-force affine reference; RPA generate/resolve for structured prand sets (thorough: all 2^22 prands for several IRK/back-end combinations).',
    'note': 'Small-scope coverage of a 2^128/2^256 input space; the reference (vp/harness/c14_ref.py) is self-tested against the spec vectors at start.',
}
CLAIMS['C15'] = {
    'level': 'model_checking',
    'engine': 'enumerate',
    'technique': 'explicit-state BFS over operation histories of the real JsonKeyStore with a dict reference model in lock-step, plus exhaustive crash-point x unflushed-prefix enumeration over an intercepted file layer',
    'text': 'BFS (depth 4-5 quick, 6-12 thorough) over update/delete/delete_all/get/get_all/resolving/reopen on 2-3 stores sharing a file (named namespaces, default namespace alone, default+named), state = file bytes + live store fields; after every transition the op result, raw file and every read API from same and fresh instances equal the model, per namespace. For every mutating op out of every state up to depth 2 (3): the on-disk image if the process died before each file-system step (open, mkdir, each write, close, replace) x 4 unflushed-prefix classes must parse and equal the model before or after the op, and a further update must succeed. PairingKeys round-trip over a boundary field domain. The in-memory file layer is cross-checked against a real scratch directory.',
    'note': 'Crash model = process death (no fsync demanded, os.replace atomic). update() semantics = per-field overwrite as implemented and documented. Only open/os/pathlib routes as seen from bumble.keys are intercepted.',
}
CLAIMS['C18'] = {
    'level': 'exploration',
    'engine': 'enumerate',
    'technique': 'bounded-exhaustive enumeration of every registered PDU class x boundary field values and length-encoding boundaries, both directions, incl. exhaustive ERTM control fields and operation-history pairs for process-wide registries',
    'text': 'Every registered class of L2CAP signalling (20), ATT (30), SMP (14), SDP (7) + data elements (all types, sizes 0/1/255/256/65535/65536, nesting 1..33), RFCOMM frames (types x C/R x DLCI x P/F x lengths 0,1,126..129,32767 x credit octet) and MCC/PN/MSC, AVDTP (38) + capabilities + codec info, AVCTP/AVC/AVRCP (54), RTP, advertising data (all AD types), addresses and UUIDs; all 32768+1024 ERTM control-field values; construct->bytes->parse equals and parse->rebuild->bytes identical, against encoders written in the check; history clause: all 156 one/two-operation prefixes over a 12-op alphabet x 3 UUID widths, registry-unchanged check, and the whole enumeration run forwards and reversed in one process with identical per-case outcomes.',
    'note': 'Values between boundary points are not visited. Two recorded findings (AV/C extended subunit ids, AVRCP generic player setting values) are listed in known_findings.json. Four spec deviations that bumble reads back consistently are reported in the evidence, not judged.',
}

CLAIMS['C06'] = {
    'level': 'exploration',
    'engine': 'explore',
    'technique': 'exhaustive enumeration of link configurations x scripted connect/data/disconnect histories on 2-3 real device stacks, plus deviation-bounded exhaustive exploration of order-preserving link/HCI delivery delays',
    'text': '9 scripts (pair, reconnect, fan-out, fan-in, chain, a device that is central and peripheral at once with racing connects, an incoming connection while an outgoing one is pending) x initiator own-address {public, random} x advertiser own-address {public, random} x {legacy, extended (thorough: mixed)} advertising x {LE, BR/EDR} x controller iteration orders: connect() returns the requested peer in central role, the counterpart event fires on the owner of the address and nowhere else, both ends agree on addresses, handles distinct while live, every PDU on a test fixed channel arrives exactly once, in order, only at the peer end, disconnections reported on both ends only. Scanning: passive/active scanner x 1-2 advertisers x payload lengths: raw advertising reports carry the advertising data (and scan response data when active) byte for byte. Representative configurations re-run under all schedules with <=1 (quick) / <=2 (thorough) delivery deviations.',
    'note': 'n <= 3 devices, one advertising set per device; the scanner uses legacy scanning (the virtual controller has no extended-scan commands). Recorded findings: scan response reports carry advertising data; the first PDU of a new connection is lost under an order-preserving link delay (LE: destination resolved at send time; BR/EDR: connection registered a loop turn after LMP_accepted; 4 signatures).',
}

CLAIMS['C05'] = {
    'level': 'exploration',
    'engine': 'enumerate',
    'technique': 'bounded-exhaustive enumeration of buffer geometries x PDU length sequences on two real device stacks with an independent ACL/ISO fragment decoder, plus explicit-state BFS to fixpoint over malformed fragment sequences on the real assembler',
    'text': 'e2e: ACL length L in {5,8,23,27,251,1021} (thorough 12 values, full product on both sides) x buffer count {1,2,64} x transports {LE, classic, LE sharing the BR/EDR queue} x sequences of 1-3 PDUs (payload 0,1, kL-4+{-1,0,1}, 65531..65535) in each direction and duplex: every ACL packet at the host->controller boundary fits L with correct handle/pb/bc and concatenates to the L2CAP frames; the receiver gets every PDU once, in order, byte-identical. iso: SDU lengths at every fragment boundary +-1 x ISO packet lengths x buffer counts on CIS and BIS links incl. sequence-number wrap. assembler: BFS to fixpoint over 14-20 fragment symbols (starts, continuations, overflow, truncated starts, bad pb) on the bare assembler and on the host receive path with two connections; from every reachable state 5 well-formed final PDUs must be delivered intact.',
    'note': 'Default schedule only. Payload contents follow one pattern. L=1 is out of scope (the L2CAP length cannot fit in the first fragment).',
}

CLAIMS['C19'] = {
    'level': 'exploration',
    'engine': 'explore',
    'technique': 'bounded-exhaustive enumeration of SDP record sets x MTUs x patterns x transactions against a Python reference matcher, deviation-bounded schedule exploration of two interleaved SDP clients, explicit-state BFS over fragment/fault sequences on the real AVDTP/AVCTP assemblers, and exhaustive AVDTP stream operation sequences',
    'text': 'SDP: real Server/Client over classic channels; record sets (16/32/128-bit UUIDs, nested lists, 12-UUID record) x client MTU {48..51,64,672 (+ up to 65535)} x patterns of 1-12 UUIDs (present/absent/nested/other width) x attribute-id lists x three transaction types incl. answers sized around k x per-response capacity up to the 64-response watchdog; two clients on different peers: all connect/query/disconnect sequences to length 5 (7) and concurrent transactions under all schedules with <=1 (<=2) delivery deviations. Assemblers: BFS depth 7 (9) over fragments of 2-3 messages from an independent spec fragmenter plus wrong label/type, relabelled, empty and short PDUs; every intact message delivered byte-identical exactly once, a broken sequence loses only its own message. AVDTP sender over peer MTU 48..56, 672: fragments fit, packet types/count right, reassembles. AVDTP stream: all operation sequences of length <=4 (<=5) through the Stream API and raw signalling against the spec state table.',
    'note': 'Four recorded findings: one SDP server state shared by all clients (3 signatures) and the AVCTP assembler expecting a PID in continue/end packets (bumble\'s own test asserts it).',
}

CLAIMS['C10'] = {
    'level': 'exploration',
    'engine': 'enumerate',
    'technique': 'bounded-exhaustive enumeration of raw ATT PDUs (all 256 opcodes x boundary parameters x truncations) x attribute databases x ATT_MTU on the real GATT server over fixed and enhanced bearers, with an independent opcode classification as oracle; exhaustive op-sequence enumeration for indications',
    'text': 'Raw request bytes injected at the server side of a real LE connection (ATT fixed channel and a real EATT credit-based channel), every PDU the server sends captured: all 256 opcodes x 8 generic parameter blocks; every defined request over boundary handles, all (start,end) pairs incl. start>end, handle sets of size 0..3 and MTU-filling, blob offsets, present/absent/malformed types, write lengths, every prefix of 19 well-formed PDUs; 5 database shapes x value lengths at the MTU-dependent packing boundaries x one protected attribute at each position; MTU {23,24,48,185,517} (thorough: every MTU 23..517). A request gets exactly one PDU (its response or an Error Response naming it); commands/confirmations/server PDUs get none; nothing exceeds the reference ATT_MTU. All ordered pairs of representative PDUs back-to-back; notify/indicate API forms x value lengths; all op sequences over two indications/confirmations/timeout to depth 5 (7): at most one unconfirmed indication per bearer. Capture seam and end-to-end seam must give identical replies.',
    'note': 'Link unencrypted; payload alphabets are boundary sets. EATT MTUs other than five are set through on_att_mtu_update.',
}
CLAIMS['C11'] = {
    'level': 'exploration',
    'engine': 'enumerate',
    'technique': 'exhaustive enumeration of permission-flag combinations x link security states x every reading/writing ATT operation form x placements x bearers on the real GATT server, against a permission predicate written from the statement',
    'text': 'One secret-bearing target attribute in 9 placements (characteristic value static/dynamic/long, descriptor, alone, first/middle/last among same-typed attributes, group-typed) x all 256 permission combinations (quick: 256 for value/descriptor, 32-set lattice elsewhere) x {plain, encrypted, encrypted+authenticated (+authenticated only)} x {ATT, EATT} x 27 read forms (Read, Read Blob at 4 offsets, Read By Type x5, Read Multiple / Variable x5 each, Read By Group Type x4, Find By Type Value x3 with value = secret) and 7 write forms; constructor-made declarations and CCCDs as targets. A refused read leaks no 3-byte window of the secret and is answered by a corresponding access error where the operation has a response; a refused write leaves the value unchanged and the write callback uncalled.',
    'note': 'Encryption key size is not modelled; authorisation is never granted. Five recorded findings share one root cause: READABLE/WRITEABLE flags are never tested (repair would break 70 repository tests).',
}

CLAIMS['C20'] = {
    'level': 'exploration',
    'engine': 'explore',
    'technique': 'bounded-exhaustive enumeration of RFCOMM geometries x write sequences x DLC operation histories on two real stacks with an independent wire decoder and credit ledger, deviation-bounded schedule exploration, exhaustive HFP feature-subset and AT-command arity/value enumeration',
    'text': 'stream: max frame size per side {23,24,127,128,129,1000,32767} x initial credits 1..7 x L2CAP MTU per side x ACL packet length (<=2 parameters off default, 490 configurations) x write-size sequences both directions {1,E-1,E,E+1,3E,20E,..} x 3 issue modes: exact bytes at each sink, drain() done, payload <= announced N1 (N1-1 with credit octet), frame <= peer L2CAP MTU, wire-derived credit ledger never <= 0 at send. multi: every operation history of depth 5 (6) over 3 DLCs (open, close by either side, transfer, concurrent open/close, two simultaneous closes, shutdown, restart) with model/wire/both ends compared after every op. sched: 5 scripts under all order-preserving delays <=1 (<=2) deviations. slc: 32x32 feature subsets the SLC code branches on x indicator/codec/call-hold lists: SLC completes, both ends agree. at: every AG handler at arity n-1..n+1 x value classes x AG states and every HF-emitted command: exactly one final result code, AG not wedged.',
    'note': 'Frame sizes are boundary values; only client-initiated DLCs; MSC flow control / RPN / RLS not modelled. "Negotiated maximum" is read per direction (a frame fits what its receiver announced).',
}

CLAIMS['C07'] = {
    'level': 'exploration',
    'engine': 'explore',
    'technique': 'bounded-exhaustive enumeration of (MTU, MPS, credits) x write-size sequences x channel kinds x CID-translation shim on two real stacks with an independent wire decoder and credit ledger, plus deviation-bounded schedule exploration of credit-starved transfers',
    'text': 'params: (mtu, mps, credits) per side from {23,24,100,2048,65535} x {23,24,64,2046,2048,65533} x {1,2,3,256,65535} with <=2 parameters off default (LE CoC) / <=1 (enhanced x1, x2, and a CID-translating shim on the client or the server side so that each end talks to a peer whose CIDs differ from its own allocation) x every write-size sequence over {1, mps-3..mps, mtu-1, mtu, mtu+1, 2mtu+1} in both directions concurrently x 3 issue styles: wire bytes are a prefix of the bytes written and the sink gets the completed SDUs; the frame-derived credit ledger (credits counted only once delivered to the sender) is >= 1 at every data-frame send; frame <= peer MPS, SDU <= peer MTU; at quiescence everything arrived and drain() returned. sched / early: credit-starved transfers and a server writing from its connection handler under all order-preserving delays with <=1 (<=2) deviations.',
    'note': 'Channel close/reopen is C09\'s; zero-length writes are outside the statement. Four recorded findings share one cause: data arriving before the application could set a sink is dropped.',
}
CLAIMS['C08'] = {
    'level': 'exploration',
    'engine': 'explore',
    'technique': 'bounded-exhaustive enumeration of mode pairs x MTU/MPS/window/FCS x SDU size sequences on two real stacks with an independent ERTM wire decoder (control fields, SAR, sequence numbers, CRC-16), deviation-bounded schedule exploration, and retransmission-timer firing enumerated before every message',
    'text': 'setup: mode pairs B/B, B/E, E/B, E/E x FCS per side x MTU/MPS/window variants x classic and LE links: both ends OPEN in the same mode or both CLOSED with the caller failed, never pending; under all schedules with <=1 (<=2) deviations. data: ERTM configurations from mtu {48,256,1000,65535} x mps {23,24,256,1024} x window {1,2,3,63} x FCS with <=1 (<=2) parameters off default, SDU sequences over {1, mps-1, mps, mps+1, 3mps, 65mps+1 (TxSeq wraps), mtu, 0} one way / both ways / echo: SDUs at each sink equal SDUs written; TxSeq advances modulo 64 without gaps; unacknowledged I-frames (by ReqSeq delivered to the sender) never exceed the window in the peer\'s Configure Request; SAR well-formed; FCS equals an independent CRC. timer: the virtual clock jumps past the retransmission time-out before every message of ERTM transfers (an acknowledgement delayed beyond the timer, nothing lost): the transfer still completes.',
    'note': 'Both ends are bumble, so REJ/SREJ/RNR and real loss are never met; only delays (incl. beyond the retransmission timer) occur.',
}

CLAIMS['C13'] = {
    'level': 'exploration',
    'engine': 'explore',
    'technique': 'exhaustive enumeration of the 400-cell association-model table plus bounded deviations (configuration, user answers, wire corruption) on two real SMP stacks against an independent reference table, with deviation-bounded schedule exploration incl. delayed user answers',
    'text': 'table: 5x5 IO capabilities x {legacy, SC} per side x MITM per side (400 cells) + OOB and JsonKeyStore cells, all-accept users: both sides conclude and agree, link encrypted, key equal at every LL_ENC_REQ (the harness asks the receiving host\'s long_term_key_provider, which the virtual controller never does), model/display/input roles equal the reference typed in from Core Vol 3 Part H Table 2.8, keys flagged authenticated only after a MITM-protected model, and on later connections in same and swapped roles the central\'s encrypt() key equals the peripheral host\'s answer. deviations (<=1 quick, <=2 thorough around symmetric cells): bonding, each key-distribution mask slot, security-request initiation, address types, every negative answer at every prompt, wrong passkey bits, 1-bit corruption of Confirm/Random/DHKey Check/Public Key per direction: never success, never stored keys, never a hang. masks: 16x16 per side. schedules: <=1 (<=2) order-preserving delays incl. the user\'s answer as its own channel on 18-20 cases.',
    'note': 'LE only (no CTKD over BR/EDR); OOB only in base cells; a hang = quiescence + 120 virtual seconds (bumble has no SMP timeout).',
}
CLAIMS['C16'] = {
    'level': 'fault_enumeration',
    'engine': 'explore',
    'technique': 'fault enumeration: 5 fault kinds injected before every message delivery of 28 awaited procedures on two real stacks (thorough: x one held message channel), with table-agreement, residue and reconnect-and-rerun oracles',
    'text': '26 procedures that await the peer (GATT read/long read/write/discover/subscribe, indicate, pair legacy-JW/SC-JW/SC-passkey, LE CoC connect/disconnect/drain, HCI command, LE remote features, L2CAP parameter update, disconnect by either role, classic channel connect/disconnect, RFCOMM start+open_dlc and close, SDP search, AVDTP discover, remote name, role switch) + idle connections; every message index 0..N of the fault-free run (1092 boundaries) x {local disconnect, peer disconnect, link loss reported to both controllers, HCI transport loss on the waiting side, on the other side}: after quiescence + 120 virtual seconds every awaited call is done, host/device/controller tables agree, no per-connection registry entry remains for a dead connection, an HCI command still succeeds, and after reconnecting the same procedure succeeds.',
    'note': 'Default schedule in quick; thorough adds one held channel from the injection point (d<=1). authenticate/encrypt, CIS/SCO and EATT bearers are not driven. A call that ends only by a built-in timeout is counted, not flagged.',
}

CLAIMS['C12'] = {
    'level': 'exploration',
    'engine': 'enumerate',
    'technique': 'bounded-exhaustive enumeration of database shapes from a grammar x MTU pairs x bearers on real client/server stacks against an independent reference, exhaustive subscription-state vectors over three bearers, and tree exploration of adversarial response scripts with a request budget for the termination clause',
    'text': 'discovery: all database shapes with <=2 of 5 grammar axes off the minimal database (1-3 services x UUID widths 16/32/128 x primary/secondary x include edges/chains/runs, characteristic UUID-width patterns, property sets, 0-2 descriptors + CCCD, static/dynamic values), also behind the default GAP/GATT services, x links (no MTU exchange, MTU preference pairs from {23,24,50,185,517}^2, EATT MTU 64/2048): every discovery procedure equals the reference tree (UUIDs by value, handles, end-group handles, properties), every attribute reads back its value, writes with/without response take effect. long_read: value lengths {0,1,MTU-4..MTU,k(MTU-1)+-1,511,512} x 28 links (thorough: every MTU 23..517 both ways). notify: every subscription vector in {none,N,I}^6 over 3 bearers (ATT of two clients + EATT) x 16 API forms: PDU kind on the wire, exactly the subscribed bearers, truncation to MTU-3, one confirmation per indication and the call pending until it arrives. termination: 6 discovery procedures x scripts of <=3 items over 14 adversarial response kinds with the last repeated for ever, request budget 70000.',
    'note': '<=2 grammar axes off; one EATT bearer; long writes (prepare/execute) are not in the client API. Non-termination is budget-confirmed for one representative per (procedure, repeated item).',
}

CLAIMS['C09'] = {
    'level': 'exploration',
    'engine': 'explore',
    'technique': 'exhaustive enumeration of channel operation histories on 1-2 links of real stacks against a reference model of open channels, link disconnection injected at every message boundary, identifier-exhaustion churn, and deviation-bounded schedule exploration',
    'text': 'seq1/seq2: every script over {open(LE CoC on 2 PSMs, enhanced x n, classic), refused open, close by client/server/both at once, abort, drain, concurrent opens from both ends of a link or on two links} to depth 2-3 (thorough 3-5) on one link and on two links of one device: after every operation both managers\' channels and le_coc_channels tables contain exactly the open halves (by object identity, right key), CIDs unique and mirrored, every open after closes succeeds, per-link results equal those of the run containing only that link\'s operations. cut1/cut2: every script x every message boundary of its fault-free run x disconnect requested by either end: every waiter done within 30 virtual seconds, tables for the dead handle empty, then the link is re-made, signalling identifiers are walked and every kind of open succeeds again. churn: one channel opened/closed 70-140 times (more than the 64 dynamic CIDs and 255 identifiers). sched: <=1 delivery deviation.',
    'note': 'Classic channels are signalled over LE links (as bumble\'s own tests do), Basic mode; deeper levels use reduced alphabets.',
}
CLAIMS['C17'] = {
    'level': 'fault_enumeration',
    'engine': 'enumerate',
    'technique': 'fault enumeration: every <=1 (thorough <=2) deviation mutant of one well-formed PDU per registered class, all byte strings of length 0..2, nested SDP elements, malformed AT lines and hostile HCI packets injected into 15 victim beds, each followed by a reference request; step budget, CPU-time guard and RecursionError monitor',
    'text': '15 beds (ATT server/client idle/client pending, SMP, LE and classic signalling, LE CoC, SDP, RFCOMM, HFP AG/HF, AVDTP, AVCTP/AVRCP, hostile controller on LE and classic). Seeds: one PDU per registered ATT (30), SMP (14), L2CAP signalling (20), SDP (7), AVDTP (13), HCI event (43+37 LE) class plus RFCOMM, AT, AVCTP/AVRCP, K-frame seeds; mutants: every truncation, appended byte, each length/count field at {0,1,actual-1,actual+1,max}, each byte at {00,FF}, all 256 opcodes; all byte strings of length 0-1 (length 2: boundary second bytes in quick, all in thorough) on every channel; SDP nesting to 100000; ACL fragment-flag sequences; raw HCI event/ACL/SCO/ISO bytes. After every frame: quiescence within 10^4 steps and the CPU guard, no RecursionError anywhere, the connection still present unless an independent decoder says the frame was a valid disconnect, and the protocol\'s reference request answered correctly; failures are bisected to a <=2-frame fresh-connection reproducer.',
    'note': 'Byte strings exhaustively only to length 2; beyond that the deviation neighbourhood of one PDU per class. Ordinary exceptions are allowed by the statement and only counted.',
}


# ---------------------------------------------------------------------------
# second building session: what was added to each check (appended to the texts above)
# ---------------------------------------------------------------------------
_ADDED = {
    'C02': ' A framer that raises on a well-formed stream is a verdict; parser readiness after a stream is judged by feeding one more packet.',
    'C03': ' reply_seq: every sequence of <= 3 commands of six stateful command families (extended advertising sets with fragmented data, legacy advertising/scanning, filter and resolving lists, CIG/CIS, remote requests on classic and LE connections) to one controller, stepwise and as a burst of concurrent callers: each answered exactly once, every remote request accepted with status 0 concluded exactly once. overlap: 10 scripts of 2-3 remote requests in flight at the same time (one host; two hosts; two hosts asking about a third device) under every order-preserving delay with <= 1 (quick) / 2 deviations. The LE create-connection cancel race is also run with the cancel handed to the controller synchronously between any two link messages. Extended-feature pages 0/1/4/255 are among the remote requests; a flow-control-only event that arrives after the response that closed the command window must re-open it by itself (the final rescue injection is made only when it came before).',
    'C04': ' queue_iso: the same BFS through a real Host whose handles are CIS links sharing the isochronous buffer pool (disconnection of a CIS must flush it). The canonical key is built from vars() of the real queue. The host BFS also injects a Disconnection Complete with an error status (nothing may be discarded, no credit returned).',
    'C06': ' burst scripts: PDUs handed over and the link disconnected in one turn of the event loop (what was sent before the disconnect must arrive; PDUs racing towards the disconnecting end may be lost), also with hosts wired to their controllers synchronously. scanning_raw: the advertiser\'s host sets and replaces its advertising / scan-response data with raw HCI commands in whole, 2-, 3- and 4-fragment form, histories of 1-2 (quick) / 3 generations, legacy and extended advertiser: every report carries exactly the latest data.',
    'C07': ' crossed: both devices open a channel towards each other at the same time (LE CoC and enhanced), which gives crossed identifiers (local 0x40 / peer 0x41 and local 0x41 / peer 0x40); one is closed by either end or none, then the survivor carries 4 x credits + 3 writes in both directions with initial credits 1, 2 (thorough 3, 7): all bytes arrive and drain() completes. wrap: 300-700 (thorough 1500) one-frame writes each way to receivers with 1-2 credits (a Flow Control Credit packet per frame: the signalling identifier wraps more than once).',
    'C09': ' cancel: the caller gives up on a pending open (task cancellation, as wait_for does) at every message boundary of the open, followed by opens and closes; 90 cancel/open/close rounds for identifier exhaustion. reopen: a channel opened from the close handler of a channel whose two halves were closed at the same time (or by one end), all kinds, then one more open; also explored with d <= 1.',
    'C10': ' Database shape "widths": runs of consecutive attributes whose type is a 32-bit UUID next to 16- and 128-bit ones (entries are budgeted by their size on the air).',
    'C11': ' Permissions assigned after construction (an open attribute tightened, a restricted one loosened) on three placements x the 32-set lattice. concurrent: a server with an encrypted+authenticated link and a plain link; an asynchronous application read / write callback is held open so that one link\'s request is still being served when the other link asks for the same attribute: both orders x every pair of access paths x each requirement bit. Two more placements declare PROPERTIES that do not advertise the operation (notify-only, read-only characteristic): the permissions still decide.',
    'C14': ' The patched random source serves distinct later draws (an implementation may reject a draw and draw again); addresses built by the reference from the draw under test are resolved as well.',
    'C17': ' RFCOMM: hostile but parseable parameter negotiation (PN with frame size 0..6, 23 x initial credits 0, 1, 7 x both convergence layers) followed by SABM, data, credits and DISC on the negotiated link, with an echoing acceptor. controller_dialects: every genuine Number Of Completed Packets / Command Complete event of the victim\'s controller rewritten into an unusual but well-formed form (unknown handle listed first / last, a zero-count entry, an extra empty event, a flow-control-only event after every response) while 80 reference requests are served. LE CoC bed: after a frame that breaks the channel\'s rules (longer than MPS, SDU longer than MTU, SDU overflow; independent decode) the victim may disconnect the CHANNEL as the specification asks - the raw attacker answers the Disconnection Request and the reference request is made on a new channel of the same connection.',
    'C19': ' SDP shape records (40 empty sequences / alternatives, 41-wide and 20-deep containers, signed and 64-bit integers, empty and 260-byte strings); patterns naming one UUID twice. stream_veto: every API sequence of <= 4 (thorough 5) procedures with one step refused by the acceptor\'s application: the caller is told and both ends stay in one state. The AVCTP fragment-sequence BFS is repeated in the fragment layout the assembler reassembles at all when that is not the specification\'s (auto-detected; see the recorded finding). sdp_multi also explores the other client connecting / disconnecting while a transaction with continuations is under way; raw stream operations include Start / Suspend naming the stream together with a non-existent SEID (refused as a whole, state unchanged).',
    'C20': ' The SLC is also run over every RFCOMM frame size 23..95 and the length-encoding boundaries (thorough 23..299) for the longest and shortest negotiation and every indicator set. late_sink: 2-3 data links receive data before the application attaches their sinks, every attach order, both directions. Bidirectional transfers of 33 and 70 frames each way (more than the 32 credits an end ever holds) are in both tiers.',
    'C08': ' crossed: both devices open a classic channel towards each other at the same time (Basic and ERTM, classic and LE links), which gives crossed identifiers; one is closed by either end or none; the survivor then carries 7 SDUs of growing size in both directions.',
    'C12': ' Link type eatt_n: 2-3 enhanced bearers opened by ONE connect_eatt call; discovery, reads and writes are then done on bearer number k of them.',
    'C15': ' The reference model keeps a namespace in existence once something was stored in it (its store goes on answering from it when it is empty again, whatever the file lists).',
}
for _k, _t in _ADDED.items():
    CLAIMS[_k]['text'] = CLAIMS[_k]['text'].rstrip() + _t
_ADDED_E = {
    'C01': ' A value that an open enumeration of the module cannot construct (its own hook for undefined values failing) is a verdict.',
    'C03': ' In the CIG family the CIS ids differ from the CIG id, the peer application accepts CIS requests, Create CIS uses the handle the latest Set CIG Parameters returned and must be concluded by LE CIS Established for that handle.',
    'C04': ' Completion events that list one handle twice; a drain() that ends with an unexpected exception is a verdict.',
    'C05': ' The end-to-end runs are repeated (3 geometries quick, all thorough) with every Number Of Completed Packets event rewritten to list an entry for a handle without ACL link before the real one.',
    'C06': ' Addresses are compared with their kind (public / random). greet scripts: an application that sends from its connection-event listener (central, peripheral, both), LE and BR/EDR, also with synchronous host-controller wiring and under explored delays. A CONNECT_IND travels in the link FIFO of its destination (nothing of a connection can overtake the PDU that creates it).',
    'C08': ' crossed is also run with the frame check sequence enabled (the FCS covers the identifier the frame travels under).',
    'C09': ' cancel also gives up on opens the peer refuses (unserved PSM; the refusal of an enhanced request lists no channel), at every message boundary, followed by an open, and 70 times in a row.',
    'C10': ' rendezvous: a request (read, read blob, read by type, read multiple, write request) on an attribute whose asynchronous application callback completes only once a key attribute has been written, x the PDU that writes it (write command on the same bearer, write request / command on another bearer) x bearer pairs: every request gets exactly one response.',
    'C11': ' Write Request / Command carrying the bytes the attribute already holds (a refusal may not depend on the value). Placement descriptor_cccd: an application-supplied Client Characteristic Configuration descriptor with a static value and requirement bits.',
    'C13': ' The eight representative cells are also paired a second time on a new connection (the controller reuses the handle): the second pairing must end as the first did on both sides and the stores must hold the new keys.',
    'C16': ' Every L2CAP channel of the connection that is open when the fault strikes must have emitted its close event once the connection is gone.',
    'C17': ' Bed le_coc_crossed: the echo channel is opened while the victim opens a channel of its own, so its two endpoints have different identifiers; Disconnection Requests naming it with the victim\'s own / an unknown / a zero source identifier or the attacker\'s identifier as destination are not valid disconnects.',
    'C19': ' Transport-channel faults: every API sequence of <= 4 procedures with the L2CAP channel that follows an accepted Open refused (both ends must stay in one state) or with the transport channel closed before Close / Abort / Stop / Start (Close and Abort still bring both ends to IDLE).',
}
for _k, _t in _ADDED_E.items():
    CLAIMS[_k]['text'] = CLAIMS[_k]['text'].rstrip() + _t
_ADDED_F = {
    'C06': ' page_race: two devices page the same third device in one turn of the event loop (BR/EDR), also under explored delays.',
    'C09': ' Scripts that leave holes in the identifier space (3-4 channels, one or two closed by either end) before an open that needs two identifiers at once.',
    'C10': ' notify is also run with the fixed and the enhanced bearer of the connection at different ATT_MTUs (517/23, 517/48, 185/24, 23/185, 48/517): each PDU is within the ATT_MTU of the bearer it is sent on.',
    'C11': ' The link state "authenticated but not encrypted" is part of both tiers.',
    'C13': ' Without negotiated bonding the two key stores may not differ in holding keys (one side only); during the second pairing the key the peripheral host answers the key request with must be the one the central encrypts with.',
    'C14': ' An address whose random part the implementation did not draw as bytes is judged by the specification alone (prand top bits 01, random part neither all zeros nor all ones, hash = ah(IRK, prand), resolves under its IRK only).',
    'C16': ' Procedures last_words_le / last_words_classic: both applications send a PDU on the connection from their disconnection listener; nothing of it may stay queued.',
    'C17': ' AVDTP bed: the reference request also configures the idle end point (and releases it again), unless what was sent may itself have configured it (independent decode). Classic signalling bed: a reactive raw peer opens a channel, asks for a configuration option bumble does not implement (six forms), answers the victim\'s own Configure Request and asks again with the MTU option alone: the corrected request must be answered with success.',
    'C20': ' Stream plans with writes of no bytes among the others (the stream is unchanged and drain() returns).',
}
for _k, _t in _ADDED_F.items():
    CLAIMS[_k]['text'] = CLAIMS[_k]['text'].rstrip() + _t
CLAIMS['C19']['note'] = 'One recorded finding: the AVCTP assembler expects a PID in continue/end packets (bumble\'s own test asserts it). The SDP server state shared by all clients, recorded earlier, was repaired (82af15d).'

NOT_CLAIMED = {}
